#!/bin/bash
# offline setup: syntax-check every specification and byte-compile the harness
set -e
cd "$(dirname "$0")"
mkdir -p evidence replays
for f in spec/MC_*.tla spec/Trace_*.tla; do
  (cd spec && java -cp /opt/veriftools/tla/tla2tools.jar:/opt/veriftools/tla/CommunityModules-deps.jar tla2sany.SANY "$(basename $f)" >/tmp/sany_$$.txt 2>&1) || { echo "SANY failed on $f"; cat /tmp/sany_$$.txt; rm -f /tmp/sany_$$.txt; exit 1; }
done
rm -f /tmp/sany_$$.txt
/venv/bin/python -m compileall -q harness >/dev/null
echo setup ok
