#!/bin/bash
# offline setup: syntax-check every specification and byte-compile the harness
set -e
cd "$(dirname "$0")"
mkdir -p evidence replays
for f in spec/MC_Exec.tla; do
  (cd spec && java -cp /opt/veriftools/tla/tla2tools.jar:/opt/veriftools/tla/CommunityModules-deps.jar tla2sany.SANY "$(basename $f)" >/dev/null) || { echo "SANY failed on $f"; exit 1; }
done
/venv/bin/python -m compileall -q harness >/dev/null
echo setup ok
