"""C14: generated SQL carries every literal and identifier verbatim.

spec/SqlLex.tla holds the dialect lexers (character automaton) and the quoting functions; TLC checks at the model
level that every short string over the dangerous characters reads back as exactly one literal / identifier with
its value (Dev = {}: the quoting each dialect needs) and that the quoting AS CODED fails exactly for the backslash
dialects (deviation quote_doubling_only, D15).  spec/Trace_SqlLex.tla then lexes the REAL output of quote_string /
quote_identifier / to_sql - one character per TLC step - and rejects any text whose shape depends on the user
strings placed in it or that does not carry a value verbatim.  SQLite / PostgreSQL-dialect text is also executed."""
import collections
import json
import os
import random
import re
import sys
import time
import warnings

warnings.filterwarnings("ignore")

from . import common
from . import relchecks as rc

if common.REPO not in sys.path:
    sys.path.insert(0, common.REPO)
os.environ.setdefault("DATA_ALGEBRA_VERIF", "1")

BACKSLASH_DIALECTS = ("mysql", "spark", "bigquery")


def models():
    import data_algebra.SQLite
    import data_algebra.PostgreSQL
    import data_algebra.MySQL
    import data_algebra.SparkSQL
    import data_algebra.BigQuery
    return {"sqlite": data_algebra.SQLite.SQLiteModel(), "pg": data_algebra.PostgreSQL.PostgreSQLModel(),
            "mysql": data_algebra.MySQL.MySQLModel(), "spark": data_algebra.SparkSQL.SparkSQLModel(),
            "bigquery": data_algebra.BigQuery.BigQueryModel()}


def codes(s):
    return [ord(c) for c in s]


def lex_cfg(path, dev, maxlen, invariants, emit=False):
    common.write_cfg(path, constants={"Dev": "<- " + dev, "Alphabet": "<- MC_Alphabet", "MaxLen": "= %d" % maxlen},
                     invariants=list(invariants) + (["EmitS"] if emit else []))


def run_lex(tr, what, dev, maxlen, invariants, emit=False, timeout=600):
    sc = common.spec_copy()
    cfg = os.path.join(sc, "lex_%d.cfg" % len(tr.runs))
    lex_cfg(cfg, dev, maxlen, invariants, emit)
    res = common.run_tlc(os.path.join(sc, "MC_SqlLex.tla"), cfg, workers=8, timeout=timeout, cwd=sc)
    common.tlc_or_die(res, what)
    tr.add(what, res)
    return res


def known_quote_defect(dialect, values):
    """D15: quote_string only doubles the quote character - wrong where the backslash is an escape character
    (MySQL, Spark, BigQuery) and where a doubled quote is not an escaped quote (Spark, BigQuery)"""
    if dialect not in BACKSLASH_DIALECTS:
        return False
    for v in values:
        if "\\" in v:
            return True
        if dialect in ("spark", "bigquery") and '"' in v:
            return True
    return False


def statements(s, ms):
    """(position, dialect, benign text, text under test, expected string values, expected identifier values)"""
    import pandas
    from data_algebra.data_ops import TableDescription
    from data_algebra.expr_rep import Value
    from data_algebra.cdata import RecordSpecification, RecordMap
    from data_algebra.sql_format_options import SQLFormatOptions

    def pipes(u):
        out = {}
        t = TableDescription(table_name="d", column_names=["x", "k"])
        out["literal"] = (t.extend({"z": Value(u)}).select_rows(lambda: None) if False else t.extend({"z": Value(u)}), [u], [])
        out["literal_in_condition"] = (t.select_rows(t.column_map()["k"] == Value(u)) if False else
                                       TableDescription(table_name="d", column_names=["x", "k"]).extend({"m": Value(u)}).select_rows("m == k"),
                                       [u], [])
        tc = TableDescription(table_name="d", column_names=[u, "k"])
        out["column_name"] = (tc.extend({"z": tc.column_map()[u]}), [], [u])
        tt = TableDescription(table_name=u, column_names=["x", "k"])
        out["table_name"] = (tt.extend({"z": "x"}), [], [u])
        out["concat_label"] = (t.concat_rows(b=t, id_column="src", a_name=u, b_name="other"), [u], [])
        rs = RecordSpecification(pandas.DataFrame({"key": [u, "plain"], "value": ["va", "vb"]}), record_keys=["k"],
                                 control_table_keys=["key"])
        tb = TableDescription(table_name="d", column_names=["k", "key", "value"])
        out["record_map_key"] = (tb.convert_records(RecordMap(blocks_in=rs)), [u], [])
        tr_ = TableDescription(table_name="d", column_names=["k", "va", "vb"])
        out["record_map_key_out"] = (tr_.convert_records(RecordMap(blocks_out=rs)), [u], [])
        # a control-table VALUE cell names a row-record column: it appears as identifier and as literal
        rv = RecordSpecification(pandas.DataFrame({"key": ["ka", "kb"], "value": [u, "vb"]}), record_keys=["k"],
                                 control_table_keys=["key"])
        tv = TableDescription(table_name="d", column_names=["k", u, "vb"])
        out["record_map_value_out"] = (tv.convert_records(RecordMap(blocks_out=rv)), [], [u])
        tvi = TableDescription(table_name="d", column_names=["k", "key", "value"])
        out["record_map_value_in"] = (tvi.convert_records(RecordMap(blocks_in=rv)), [], [u])
        # the NAME of a control-table key / value column (a column of the block form)
        rc_ = RecordSpecification(pandas.DataFrame({u: ["ka", "kb"], "value": ["va", "vb"]}), record_keys=["k"],
                                  control_table_keys=[u])
        out["record_map_keycol_out"] = (TableDescription(table_name="d", column_names=["k", "va", "vb"]).convert_records(RecordMap(blocks_out=rc_)),
                                        [], [u])
        out["record_map_keycol_in"] = (TableDescription(table_name="d", column_names=["k", u, "value"]).convert_records(RecordMap(blocks_in=rc_)),
                                       [], [u])
        rw = RecordSpecification(pandas.DataFrame({"key": ["ka", "kb"], u: ["va", "vb"]}), record_keys=["k"],
                                 control_table_keys=["key"])
        out["record_map_valcol_out"] = (TableDescription(table_name="d", column_names=["k", "va", "vb"]).convert_records(RecordMap(blocks_out=rw)),
                                        [], [u])
        out["record_map_valcol_in"] = (TableDescription(table_name="d", column_names=["k", "key", u]).convert_records(RecordMap(blocks_in=rw)),
                                       [], [u])
        return out
    good = pipes("u")
    try:
        test = pipes(s)
    except Exception as ex:  # noqa: BLE001
        return [("build", "all", None, None, [], [], "%s: %s" % (type(ex).__name__, str(ex)[:200]))]
    res = []
    for pos in good:
        for d, m in ms.items():
            idq = m.identifier_quote
            if pos in ("column_name", "table_name", "record_map_value_out", "record_map_value_in", "record_map_keycol_out",
                       "record_map_keycol_in", "record_map_valcol_out", "record_map_valcol_in") and (idq in s or len(s) == 0):
                continue          # outside the property: names containing the identifier quote
            for annotate in (True, False):
                opt = SQLFormatOptions(annotate=annotate, warn_on_method_support=False, warn_on_novel_methods=False)
                try:
                    a = m.to_sql(good[pos][0], sql_format_options=opt)
                    b = m.to_sql(test[pos][0], sql_format_options=opt)
                except Exception as ex:  # noqa: BLE001
                    res.append((pos, d, None, None, test[pos][1], test[pos][2], "%s: %s" % (type(ex).__name__, str(ex)[:200])))
                    continue
                res.append((pos + ("/annotated" if annotate else ""), d, a, b, test[pos][1], test[pos][2], None))
    return res


def execute_checks(s, vd, stats):
    """SQLite and PostgreSQL-dialect text executed on SQLite: the value / name is read back"""
    import pandas
    import data_algebra.SQLite
    import data_algebra.PostgreSQL
    from data_algebra.data_ops import TableDescription
    from data_algebra.expr_rep import Value
    h = data_algebra.SQLite.example_handle()
    pg = data_algebra.PostgreSQL.PostgreSQLModel()
    try:
        d = pandas.DataFrame({"x": [1.0, 2.0], "k": ["a", s]})
        h.insert_table(d, table_name="d", allow_overwrite=True)
        t = TableDescription(table_name="d", column_names=["x", "k"])
        for name, ops, want in (
                ("literal", t.extend({"z": Value(s)}), lambda r: list(r["z"]) == [s, s]),
                ("condition", t.extend({"m": Value(s)}).select_rows("m == k"), lambda r: list(r["k"]) == [s]),
                ("concat_label", t.concat_rows(b=t, id_column="src", a_name=s, b_name="other"),
                 lambda r: sorted(set(r["src"])) == sorted({s, "other"}))):
            for dialect, model in (("sqlite", h.db_model), ("pg", pg)):
                stats["executed"] += 1
                sql = None
                try:
                    sql = model.to_sql(ops)      # a generator that refuses a legal literal has not carried it
                    r = h.read_query(sql)
                    ok = want(r)
                    why = "value read back differs: %r" % (r.to_dict(orient="list"),)
                except Exception as ex:  # noqa: BLE001
                    ok, why = False, "%s: %s" % (type(ex).__name__, str(ex)[:200])
                if not ok:
                    vd.violation({"kind": "executed", "dialect": dialect, "position": name, "string": s, "why": why, "sql": sql},
                                 tag="exec:%s:%s" % (dialect, name))
        if '"' not in s and len(s) > 0:
            dc = pandas.DataFrame({s: [1.0, 2.0], "k": ["a", "b"]})
            h.insert_table(dc, table_name="dc", allow_overwrite=True)
            tc = TableDescription(table_name="dc", column_names=[s, "k"])
            ops = tc.extend({"z": tc.column_map()[s]})
            for dialect, model in (("sqlite", h.db_model), ("pg", pg)):
                stats["executed"] += 1
                sql = None
                try:
                    sql = model.to_sql(ops)      # the name holds no identifier quote: it is a legal identifier
                    r = h.read_query(sql)
                    ok = s in list(r.columns) and list(r["z"]) == [1.0, 2.0]
                    why = "columns %r" % (list(r.columns),)
                except Exception as ex:  # noqa: BLE001
                    ok, why = False, "%s: %s" % (type(ex).__name__, str(ex)[:200])
                if not ok:
                    vd.violation({"kind": "executed", "dialect": dialect, "position": "column_name", "string": s, "why": why, "sql": sql},
                                 tag="exec:%s:column" % dialect)
    finally:
        h.close()


EXTRA_STRINGS = ["100%", "a;b", "/* c */ d", "x--y", "#h", "ünï©ode ✓", "tab\there", "semi'colon;--", "a''b", "\\", "\\'", "\\\\"]


def check_C14(tier, replay=None):
    t0 = time.time()
    vd = common.Verdicts("C14")
    tr = rc.TlcRun()
    stats = collections.Counter()
    quick = tier == "quick"
    if replay:
        rec = json.load(open(replay))
        print(json.dumps({k: v for k, v in rec.items() if k not in ("a", "b")}, indent=1, default=str)[:4000])
        return 1
    # (1) model level
    ml = 4 if quick else 5
    r = run_lex(tr, "every string of <= %d dangerous characters reads back as one literal / identifier in all five dialects "
                    "(quoting each dialect needs)" % ml, "NoDev", ml, ["ReadBackString", "ReadBackIdent"], emit=False)
    if r.violated:
        rc.law_violation(vd, r, "SqlLex ReadBack")
    r = run_lex(tr, "the quoting AS CODED reads back in the ANSI dialects (sqlite, pg)", "DevCoded", ml, ["ReadBackAnsi"])
    if r.violated:
        rc.law_violation(vd, r, "SqlLex ReadBackAnsi with the coded quoting")
    r = run_lex(tr, "deviation model quote_doubling_only must break ReadBackString (backslash dialects, D15)", "DevCoded", 3, ["ReadBackString"])
    stats["deviation quote_doubling_only violates"] = r.violated or "nothing"
    if r.violated != "ReadBackString":
        raise common.MachineryError("the coded quoting does not violate ReadBackString on the model")
    # (2) strings enumerated by TLC (all strings of <= 3 dangerous characters) + a few fixed ones
    r = run_lex(tr, "emit every string of <= 3 dangerous characters", "NoDev", 3, [], emit=True)
    strings = []
    for ln in r.lines:
        if ln.startswith("CASE "):
            strings.append("".join(chr(int(c)) for c in re.findall(r"\d+", ln[5:])))
    strings = sorted(set(strings)) + EXTRA_STRINGS
    rng = random.Random(common.seed())
    ms = models()
    records, meta = [], []
    for s in strings:
        for d, m in ms.items():
            try:
                q = m.quote_string(s)
                records.append({"d": d, "a": codes(m.quote_string("u")), "b": codes(q), "strs": [codes(s)], "ids": []})
                meta.append(("quote_string", d, s, q))
            except Exception as ex:  # noqa: BLE001
                vd.violation({"kind": "quote_string raised", "dialect": d, "string": s, "why": str(ex)[:200]})
            if len(s) > 0 and m.identifier_quote not in s:
                try:
                    q = m.quote_identifier(s)
                    records.append({"d": d, "a": codes(m.quote_identifier("u")), "b": codes(q), "strs": [], "ids": [codes(s)]})
                    meta.append(("quote_identifier", d, s, q))
                except Exception as ex:  # noqa: BLE001
                    vd.violation({"kind": "quote_identifier raised", "dialect": d, "string": s, "why": str(ex)[:200]})
    nst = 10 if quick else 60
    dangerous = [s for s in strings if len(s) >= 1]
    # one string per dangerous feature (always), the rest drawn by the seed
    features = ["'", '"', "`", "\\", "\n", " \n", "\n\n", "--", "-- ", "a'", "'a", "''", "\\'", "a b", " a", "a "]
    chosen = [f for f in features if f in strings or True]
    chosen += rng.sample(dangerous, min(nst, len(dangerous))) + EXTRA_STRINGS[:6 if quick else len(EXTRA_STRINGS)]
    chosen = list(dict.fromkeys(chosen))
    for s in chosen:
        for pos, d, a, b, sv, iv, err in statements(s, ms):
            if err is not None:
                if known_quote_defect(d, [s]):
                    stats["KF:sql_quote_doubling_only"] += 1
                    vd.note_known("sql_quote_doubling_only")
                    continue
                vd.violation({"kind": "to_sql raised", "position": pos, "dialect": d, "string": s, "why": err}, tag="raise:" + pos)
                continue
            records.append({"d": d, "a": codes(a), "b": codes(b), "strs": [codes(v) for v in sv], "ids": [codes(v) for v in iv]})
            meta.append((pos, d, s, b))
        execute_checks(s, vd, stats)
    # (3) trace level: TLC lexes the real output
    sc = common.spec_copy()
    path = os.path.join(sc, "lex_traces.json")
    with open(path, "w") as f:
        json.dump(records, f)
    cfg = os.path.join(sc, "lex_trace.cfg")
    common.write_cfg(cfg, spec="TSpec", constants={})
    res = common.run_tlc(os.path.join(sc, "Trace_SqlLex.tla"), cfg, workers=16, timeout=1500, cwd=sc, env={"TRACE_FILE": path})
    common.tlc_or_die(res, "trace validation")
    tr.add("real output of quote_string / quote_identifier / to_sql lexed one character per step (%d texts)" % len(records), res)
    verdicts = {}
    for ln in res.lines:
        m = re.match(r"^(ACC|REJ \S+) (\d+)$", ln)
        if m:
            verdicts[int(m.group(2))] = m.group(1)
    if len(verdicts) != len(records):
        raise common.MachineryError("trace validation judged %d of %d texts" % (len(verdicts), len(records)))
    for i, (pos, d, s, text) in enumerate(meta):
        v = verdicts[i + 1]
        stats["texts"] += 1
        if v == "ACC":
            stats["accepted"] += 1
            continue
        if known_quote_defect(d, [s]):
            stats["KF:sql_quote_doubling_only"] += 1
            vd.note_known("sql_quote_doubling_only")
            continue
        stats["rejected"] += 1
        vd.violation({"kind": "lexed", "position": pos, "dialect": d, "string": s, "verdict": v, "text": text}, tag="%s:%s:%s" % (v, d, pos))
    nontriv = sum(1 for (pos, d, s, text) in meta if any(c in s for c in "'\"`\\\n-#"))
    cov = {"states": tr.states, "transitions": tr.transitions, "traces_validated_against_impl": len(records),
           "samples": [{"position": m_[0], "dialect": m_[1], "string": m_[2], "text": m_[3][-200:]} for m_ in meta[:2] + meta[-2:]],
           "evaluations": len(records) + stats["executed"], "distinct_nontrivial": nontriv,
           "rule": "strings = all strings of <= 3 characters over {' \" ` backslash newline - a space} enumerated by TLC plus fixed ones "
                   "(percent, comment markers, unicode); each is quoted as literal and identifier by all five dialect models, and a "
                   "sample is placed as literal, condition constant, column name, table name, concat_rows label and record-map key in "
                   "statements (annotated and not); non-trivial = the string contains a quote, backslash, newline or comment marker",
           "tlc_runs": tr.runs, "outcomes": dict(stats), "known_findings_seen": dict(vd.known), "exhaustive": False}
    common.write_evidence("C14", tier, "model_checking", cov, time.time() - t0, len(vd.violations),
                          assumptions=["the MySQL / Spark / BigQuery automata are written from the vendors' lexical documentation; no such "
                                       "engine exists in the sandbox to confirm them", "names containing the dialect's identifier quote "
                                       "are outside the property", "SQLite executes the sqlite and the PostgreSQL-dialect text"])
    return vd.report()


CHECKS = {"C14": check_C14}
