#!/bin/bash
# confirm a seeded change: demo fails with it and passes without it; the pinned suite still passes with it
# usage: seeded_confirm.sh <dir with patch.diff and demo.py> [--no-suite]
D=$1
ID=$(basename $D)
W=/tmp/cw_$ID
git -C /repo worktree remove --force $W >/dev/null 2>&1
git -C /repo worktree add -q $W HEAD || exit 2
cd $W
PYTHONPATH=$W /venv/bin/python $D/demo.py >/tmp/cw_$ID.clean.txt 2>&1; CLEAN=$?
git apply $D/patch.diff || { echo "$ID: patch does not apply"; git -C /repo worktree remove --force $W; exit 2; }
PYTHONPATH=$W /venv/bin/python $D/demo.py >/tmp/cw_$ID.mut.txt 2>&1; MUT=$?
SUITE="skipped"
if [ "$2" != "--no-suite" ]; then
  SUITE=$(/verif/harness/run_baseline.sh $W | tr '\n' ' ')
fi
git -C /repo worktree remove --force $W
echo "$ID: demo clean exit=$CLEAN mutated exit=$MUT suite: $SUITE"
