"""Replay Exec.tla cases on the real backends and judge every backend against the reference.

judge_case() returns, per backend, one of
  ("ok",)                         result equals the reference after every step that was looked at
  ("known", finding_id, step)     first divergence is exactly what the named deviation model predicts
  ("diverge", step, detail)       first divergence is NOT explained by any deviation model
  ("raised", step, text)          the backend raised on an accepted pipeline
  ("skip", why)                   values not observable here (documented convention point)
together with the projected final result, so that property checks can also compare backends
directly with each other.
"""
import hashlib
import json
import multiprocessing
import os
import sys
import traceback

from . import common
from . import relcase
from .relcase import spec_table, abs_table, same_table

BACKENDS = ("pandas", "sqlite", "polars")

_be = None


def _backends():
    global _be
    if _be is None:
        _be = relcase.Backends()
    return _be


def case_hash(case):
    return hashlib.sha1(json.dumps([case["inp"], case["prog"]], sort_keys=True).encode()).hexdigest()[:16]


def pre_top(case, i):
    """spec table the (unary) step i acts on"""
    if i == 0:
        return case["inp"]["t1"]
    return case["hist"][i - 1]["top"]


def _pick_ops(e):
    if not isinstance(e, list):
        return False
    if e and e[0] == "b" and e[1] in ("maximum", "minimum", "fmax", "fmin"):
        return True
    return any(_pick_ops(x) for x in e if isinstance(x, list))


def rc_uses_cat(st):
    def walk(e):
        return isinstance(e, list) and ((len(e) > 0 and e[0] == "cat") or any(walk(x) for x in e if isinstance(x, list)))
    return walk(st)


def rc_uses_tag(st, tag):
    def walk(e):
        return isinstance(e, list) and ((len(e) > 0 and e[0] == tag) or any(walk(x) for x in e if isinstance(x, list)))
    return walk(st)


def _uses_mod(st):
    def walk(e):
        return isinstance(e, list) and ((len(e) >= 4 and e[0] == "b" and e[1] in ("%", "mod", "remainder")) or any(walk(x) for x in e if isinstance(x, list)))
    return walk(st)


def explain_dev(case, backend, i):
    """name of the deviation model that applies at step i for this backend (naming only;
    whether it explains the observed result is decided by comparing with the model's table)"""
    st = case["prog"][i]
    op = st[0]
    if backend == "pandas":
        if op == "project":
            return "pandas_drops_null_groups"
        if op == "wextend":
            pre = pre_top(case, i)
            part = st[2]
            if any(r[c] == "NULL" for r in pre["rows"] for c in part):
                return "pandas_drops_null_groups"
            return "pandas_cum_null_hole"
        if op in ("extend", "select_rows"):
            if op == "extend" and rc_uses_cat(st):
                return "pandas_concat_null_as_text"
            return "pandas_null_cmp_false"
        if op in ("join", "joinc"):
            return "pandas_null_keys_match"
    if backend in ("polars", "polars_lazy"):
        if op in ("project", "wextend"):
            return "polars_nunique_counts_null"
        if op == "extend":
            if rc_uses_tag(st, "nan"):
                return "polars_is_nan_null"
            return "polars_maxmin_ignore_null"
        if op in ("join", "joinc"):
            return "polars_full_join_right_key_lost"
    if backend in ("sqlite", "pg"):
        if op == "extend":
            if _uses_mod(st):
                return "sqlite_mod_truncates" if backend == "sqlite" else "pg_mod_truncates"
            if rc_uses_tag(st, "uq"):
                return "sql_round_half_away"
            if backend == "pg" and rc_uses_tag(st, "nan"):
                return "pg_is_nan_null_false"
            return "sql_maxmin_swapped"
        if op in ("join", "joinc") and backend == "sqlite":
            return "sqlite_full_join_emulation"
    return "%s_%s" % (backend, op)


def eval_backend(be, backend, ops, case, nm, loaded, variant=None):
    if backend == "pandas":
        return be.pandas(ops, case, nm, variant=variant)
    if backend == "sqlite":
        if not loaded[0]:
            be.load_sqlite(case, nm, variant=variant)
            loaded[0] = True
        return be.sqlite.read_query(ops)
    if backend == "pg":
        # PostgreSQL-dialect SQL text executed on SQLite (proxy, see DESIGN.md C02)
        if not loaded[0]:
            be.load_sqlite(case, nm, variant=variant)
            loaded[0] = True
        return be.run_sql(be.sql_text(ops, "pg"))
    if backend == "polars":
        return be.polars(ops, case, nm, variant=variant)
    if backend == "polars_lazy":
        return be.polars(ops, case, nm, lazy=True, variant=variant)
    raise ValueError(backend)


def order_defined(case, i):
    """is the COLUMN order of the result after step i defined by the operators (C08)?
    yes after select_columns, and through steps that pass columns through unchanged"""
    j = i
    while j >= 0:
        op = case["prog"][j][0]
        if not case["hist"][j]["ok"] or op in ("select_rows", "order_rows"):
            j -= 1
            continue
        return op == "select_columns"
    return False


def judge_backend(case, built, backend, be, nm=relcase.IDENT, loaded=None, check_values=True, variant=None,
                  col_order=False):
    kinds = case["kinds"]
    hist = case["hist"]
    n = len(hist)
    loaded = loaded if loaded is not None else [False]
    altb = case.get("alt", {}).get({"polars_lazy": "polars"}.get(backend, backend))

    def conv_upto(i):
        return any(h["conv"] for h in hist[: i + 1])

    def look(i):
        """evaluate the pipeline as it stands after step i; returns (status, payload)"""
        ops = built.tops[i]
        try:
            res = eval_backend(be, backend, ops, case, nm, loaded, variant)
        except Exception as ex:  # noqa: BLE001
            return "raised", "%s: %s" % (type(ex).__name__, str(ex)[:300])
        got = abs_table(res, nm)
        exp = spec_table(hist[i]["top"], kinds)
        values = check_values and not conv_upto(i)
        ok, why = same_table(got, exp, ordered=hist[i]["ordered"], values=values)
        if ok and col_order and order_defined(case, i) and list(got[0]) != list(exp[0]):
            ok, why = False, "column order %s != %s" % (got[0], exp[0])
        if ok:
            return ("ok" if values else "skip"), got
        return "diff", (got, exp, why)

    last = n - 1
    status, payload = look(last)
    if status in ("ok", "skip"):
        return {"verdict": (status,), "final": payload}
    final = payload[0] if status == "diff" else None
    # locate the first step at which this backend leaves the reference
    for i in range(n):
        if not hist[i]["ok"]:
            continue
        s, p = (status, payload) if i == last else look(i)
        if s in ("ok", "skip"):
            continue
        if s == "raised":
            return {"verdict": ("raised", i, p), "final": None}
        got, exp, why = p
        if altb is not None and altb[i] != "same" and check_values:
            ok2, _ = same_table(got, spec_table(altb[i], kinds), ordered=hist[i]["ordered"])
            if ok2:
                return {"verdict": ("known", explain_dev(case, backend, i), i), "final": final}
        return {"verdict": ("diverge", i, {"why": why, "got": got, "expected": exp,
                                           "model": (altb[i] if altb is not None else None)}), "final": final}
    return {"verdict": ("diverge", last, {"why": "final differs but no prefix does"}), "final": final}


def judge_case(case, backends=BACKENDS, nm=relcase.IDENT, opts=None):
    opts = opts or {}
    be = _backends()
    out = {"hash": case_hash(case), "accept": None, "backends": {}}
    try:
        built = relcase.build(case, nm)
    except Exception as ex:  # noqa: BLE001
        out["build_error"] = "%s: %s" % (type(ex).__name__, str(ex)[:300])
        return out
    out["accept"] = built.accepted
    out["accept_errors"] = built.errors
    want = [h["ok"] for h in case["hist"]]
    out["accept_ok"] = (built.accepted == want)
    if not out["accept_ok"]:
        return out
    out["declared"] = [relcase_cols(t, nm) for t in built.tops]
    out["declared_ok"] = all(set(d) == set(h["top"]["cols"]) and len(d) == len(h["top"]["cols"])
                             for d, h in zip(out["declared"], case["hist"]) if h["ok"])
    for variant in opts.get("variants", [None]):
        loaded = [False]
        for b in backends:
            if variant in ("dupidx", "stridx", "perm_keepidx") and b != "pandas":
                continue
            key = b if variant is None else "%s/%s" % (b, variant)
            out["backends"][key] = judge_backend(case, built, b, be, nm, loaded,
                                                 check_values=opts.get("values", True), variant=variant,
                                                 col_order=opts.get("col_order", False))
    return out


def relcase_cols(ops, nm):
    back = nm.back()
    return [back.get(c, c) for c in ops.column_names]


def _work(args):
    case, backends, opts = args
    try:
        return judge_case(case, backends, opts=opts)
    except Exception:  # noqa: BLE001
        return {"hash": case_hash(case), "crash": traceback.format_exc()[-1500:]}


def replay(cases, backends=BACKENDS, procs=16, fn=None, opts=None):
    """judge many cases in parallel; yields (case, outcome)"""
    fn = fn or _work
    if procs <= 1 or len(cases) < 8:
        for c in cases:
            yield c, fn((c, backends, opts))
        return
    ctx = multiprocessing.get_context("fork")
    with ctx.Pool(procs) as pool:
        for c, o in zip(cases, pool.imap(fn, [(c, backends, opts) for c in cases], chunksize=8)):
            yield c, o


def parse_cases(lines, limit=None, dedupe=True):
    seen = set()
    out = []
    for s in lines:
        if not s.startswith("CASE "):
            continue
        c = json.loads(s[5:])
        if dedupe:
            h = case_hash(c)
            if h in seen:
                continue
            seen.add(h)
        out.append(c)
        if limit and len(out) >= limit:
            break
    return out
