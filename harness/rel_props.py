"""Property checks of the relational family, all driven by spec/Exec.tla."""
import collections
import json
import random
import time

from . import common
from . import relchecks as rc
from . import relreplay
from . import findings as kf
from . import exec_traces

LAWS = ["DeclaredCols", "HistOK", "StepLaw", "PermLaw"]

ASSUME_REL = [
    "TLA+ reference semantics (spec/Values.tla, spec/Relational.tla) written from the documentation and the SQL standard; "
    "null and NaN are one value, booleans are compared as 1/0, floats with 1e-8 relative tolerance",
    "TLC 2.x explores the stated constants exhaustively (MC runs) or by seeded simulation (SIM runs)",
    "SQL is executed on the in-process SQLite 3.40 engine through DBHandle.read_query",
    "constructs the documentation leaves open are not generated: ties under a limit, non-total or null-containing "
    "window orders, row order except directly after a total order_rows",
    "cases that reach a documented destination convention (sum/count over a group without non-null values, "
    "ungrouped aggregates of an empty table) are compared on columns only",
]


def plan_sizes(tier, quick, thorough):
    return quick if tier == "quick" else thorough


def run_plan(prop, tier, plan, replay=None):
    t0 = time.time()
    vd = common.Verdicts(prop)
    if replay:
        return do_replay(prop, vd, plan, replay)
    tr = rc.TlcRun()
    stats = collections.Counter()
    # (1) model checking: laws of the reference semantics
    for m in plan.get("mc", []):
        m = dict(m)
        tiers = m.pop("tier", None)
        if tiers and tier not in tiers:
            continue
        what = m.pop("what")
        res = rc.run_exec(tr, what, invariants=m.pop("invariants", LAWS), **m)
        if res.violated or res.deadlock:
            rc.law_violation(vd, res, what)
    # (1b) the SQL extend-merge contention rule, symbolically (spec/SqlMerge.tla)
    if plan.get("merge_traces"):
        from .sm_props import run_sm
        r = run_sm("MC_SqlMerge", {"Cols": "<- MC_Cols2", "PASS": "= PASS", "Dev": "<- NoDev"}, invariants=["MergeSound"], tr=tr,
                   what="SQL extend merge: the contention rule is sound for ALL pairs of SELECT lists over 2 columns (symbolic meanings)")
        if r.violated:
            rc.law_violation(vd, r, "SqlMerge MergeSound")
        r = run_sm("MC_SqlMerge", {"Cols": "<- MC_Cols2", "PASS": "= PASS", "Dev": "<- DevWindow"}, invariants=["MergeSound"], tr=tr,
                   what="deviation model: window columns missing from the declared dependencies must break MergeSound")
        stats["deviation window_deps_undeclared violates"] = r.violated or "nothing"
        if r.violated != "MergeSound":
            raise common.MachineryError("SqlMerge deviation model does not violate MergeSound")
    # (2) behaviours for replay: exhaustive strata and seeded simulation
    results = []
    for e in plan.get("emit", []):
        e = dict(e)
        tiers = e.pop("tier", None)
        if tiers and tier not in tiers:
            continue
        what = e.pop("what")
        quota = e.pop("quota", None)
        r_ = rc.run_exec(tr, what, emit=True, backends=True, **e)       # an emit entry may carry invariants: laws and cases from one run
        r_.quota = quota
        if r_.violated or r_.deadlock:
            rc.law_violation(vd, r_, what)
        results.append(r_)
    simcases = []
    for sim in [plan.get("sim")] + list(plan.get("sims", [])):
        if not sim:
            continue
        sim = dict(sim)
        num = sim.pop("num")[0 if tier == "quick" else 1]
        what = sim.pop("what", "simulation")
        seeds = [common.seed()] if tier == "quick" else [common.seed(), common.seed() + 1000003]
        for sd in seeds:
            r = rc.run_exec(tr, "%s seed=%d" % (what, sd), simulate={"num": num, "seed": sd}, emit=True, backends=True,
                            level=2, samplek=sim.get("samplek", 6),
                            **{k: v for k, v in sim.items() if k not in ("samplek",)})
            results.append(r)
    limit = plan.get("limit", (6000, 30000))[0 if tier == "quick" else 1]
    cases = rc.collect_cases(results, limit=limit, tier=tier)
    stats["cases_emitted_distinct"] = len(cases)
    # (3) conformance: replay into the real code
    judge = plan.get("judge", default_judge)
    prefix = exec_traces.start(prop) if plan.get("exec_traces") else None
    mprefix = exec_traces.start_merge(prop) if plan.get("merge_traces") else None
    judge(prop, vd, cases, plan, stats)
    # (4) conformance the other way: the executor's recorded steps validated by TLC
    extra_cov = exec_traces.run(prop, vd, stats, tr, prefix, tier, laws=plan["exec_traces"]) if prefix else {}
    if mprefix:
        extra_cov.update(exec_traces.run_merge(prop, vd, stats, tr, mprefix, tier))
    # evidence
    wall = time.time() - t0
    samples = [rc.short_case(c) for c in cases[:3]]
    cov = {
        "states": tr.states,
        "transitions": tr.transitions,
        "traces_validated_against_impl": stats["cases"],
        "samples": samples,
        "evaluations": stats["cases"],
        "distinct_nontrivial": sum(1 for c in cases if plan.get("nontrivial", rc.nontrivial)(c)),
        "rule": "cases = TLC behaviours of Exec.tla (inputs grown by AddRow, pipelines by Step), de-duplicated by "
                "(inputs, steps); non-trivial = some input has rows and the final reference result has rows",
        "tlc_runs": tr.runs,
        "outcomes": dict(stats),
        "known_findings_seen": dict(vd.known),
        "exhaustive": False,
        "backends": list(plan.get("backends", relreplay.BACKENDS)),
    }
    cov.update(extra_cov)
    cov["traces_validated_against_impl"] += (extra_cov.get("executor_traces_from_replay", 0) + extra_cov.get("executor_traces_from_repo_tests", 0)
                                             + extra_cov.get("sql_merge_decisions_validated", 0))
    if plan.get("level", "model_checking") != "model_checking":
        cov["explanation"] = plan["explanation"]
    common.write_evidence(prop, tier, plan.get("level", "model_checking"), cov, wall, len(vd.violations),
                          assumptions=ASSUME_REL + plan.get("assumptions", []))
    return vd.report()


def default_judge(prop, vd, cases, plan, stats):
    rc.judge_all(prop, vd, cases, plan.get("backends", relreplay.BACKENDS), stats=stats,
                 differential=plan.get("differential"), allow_raise=plan.get("allow_raise", ("polars", "polars_lazy")),
                 opts=plan.get("opts"), accept_matters=plan.get("accept_matters", True),
                 relevant_ops=plan.get("relevant_ops"))


def do_replay(prop, vd, plan, path):
    with open(path) as f:
        rec = json.load(f)
    if rec.get("kind") == "tlc-law":
        print("TLC law violation recorded: %s violated %s" % (rec["what"], rec["violated"]))
        print("\n".join(rec["trace"][:80]))
        return 1
    case = rec["case"]
    stats = collections.Counter()
    judge = plan.get("judge", default_judge)
    judge(prop, vd, [case], plan, stats)
    print(json.dumps(dict(stats), indent=1))
    return vd.report()


# ---------------------------------------------------------------------------------------------
T1 = dict(tabcols="MC1_TabCols", colvals="MC_ColVals")          # one input table
T12 = dict(tabcols="MC_TabCols", colvals="MC_ColVals")          # two input tables
SIMT = dict(tabcols="SIM_TabCols", colvals="SIM_ColVals")

UNARY = ["extend", "wextend", "project", "select_rows", "cols", "order"]

# focused simulations: consecutive steps of these families interact through the columns the first one writes
# (the generator prefers keys / sources / operands written by the previous step)
def inter(fams, num=(400, 1500), rows=3, steps=2):
    return dict(what="random %d-call pipelines of %s (step interactions)" % (steps, "/".join(fams)), fams=fams, num=num, rows=rows,
                steps=steps, **SIMT)


# exhaustive interaction strata over a micro alphabet (Level 0 of Exec.tla): an extend that re-orders / re-keys a column
# followed by windows ordered by it, aggregates grouped by it, selections, drops and limits
MICRO = dict(fams=["xo", "wo", "po", "co", "oo"], rows=2, level=0, tabcols="MCB_TabCols", colvals="MCW_ColVals", timeout=600)


def micro(steps, one_in, tier=None):
    d = dict(what="micro alphabet (o := x - o | z := x - o; windows ordered by o/z; project by o/z; drop/select; order+limit): "
                  "every %d-call pipeline over all tables of <= 2 rows (one in %d replayed)" % (steps, one_in),
             steps=steps, one_in=one_in, **MICRO)
    if tier:
        d["tier"] = tier
    return d


MICRO_W2 = dict(what="two consecutive windowed extends over two-column orderings in both priorities, all tables of <= 2 rows",
                fams=["wo2"], rows=2, steps=2, level=0, tabcols="MCB_TabCols", colvals="MCW_ColVals", timeout=300)
MICRO_OW = dict(what="order_rows (either direction, with and without a limit) right before a window ordered by the same column in "
                     "either direction, all tables of <= 2 rows (one in 3 replayed)",
                fams=["oor", "wo"], rows=2, steps=2, level=0, one_in=3, tabcols="MCB_TabCols", colvals="MCW_ColVals", timeout=300)
MICRO_FORK = dict(what="fork / re-combine shapes over the micro alphabet (extend z=o+1 | x=x+1, dup, swap, concat | inner join): "
                       "every 4-call behaviour that ends with one open pipeline, <= 1 row (one in 2 replayed)",
                  fams=["extend", "stack", "binary"], rows=1, steps=4, level=0, one_in=2, emitsel="fork", timeout=300,
                  tabcols="MCB_TabCols", colvals="MCB_ColVals")
JOIN_SHARED = dict(what="every join type x key spec over all pairs of tables sharing a non-key column, <= 1 row each (sampled)",
                   fams=["stack", "binary"], rows=1, steps=2, level=2, one_in=4, tabcols="MCJ_TabCols", colvals="MCJ_ColVals")

MICRO_WP = dict(what="two consecutive windowed extends that differ in their partition (whole table / by y), same ordering, "
                     "independent targets: every 2-call pipeline over all tables of <= 2 rows",
                fams=["wp"], rows=2, steps=2, level=0, tabcols="MCB_TabCols", colvals="MCW_ColVals", timeout=300)
MICRO_OO2 = dict(what="two consecutive order_rows (either direction, no limit / 1 / 2): every 2-call pipeline over all tables of <= 2 rows",
                 fams=["oor"], rows=2, steps=2, level=0, tabcols="MCB_TabCols", colvals="MCW_ColVals", timeout=300)
MICRO_OJ = dict(what="order_rows (limit 0 | 1) on either side right before a join with differently named keys (left.o = right.x) "
                     "or a concat: every 3- and 4-call behaviour over two tables with the same columns, <= 1 row",
                fams=["oo", "stack", "bink", "binary"], rows=1, steps=4, level=0, tabcols="MCB2_TabCols", colvals="MCB_ColVals", timeout=300)
JOIN_2KEYS = dict(what="every join type x key spec (one key, two keys, differently named keys, crossed keys a=b & b=a) over two tables "
                       "with the same three numeric columns, <= 1 row each (one in 6 replayed)",
                  fams=["stack", "binary"], rows=1, steps=2, level=2, one_in=6, tabcols="MCB2_TabCols", colvals="MCB_ColVals")

INTERACTIONS = [inter(["extend", "wextend"]), inter(["extend", "project"]), inter(["extend", "order", "cols"], steps=3),
                inter(["wextend", "cols", "project"], steps=3), inter(["extend", "select_rows", "cols"], steps=3)]

PLAN_C01 = {
    "mc": [
        dict(what="laws, one table, <=2 rows, every unary step", fams=UNARY, rows=2, steps=1, level=1, **T1),
        dict(what="laws, two tables, <=1 row, join/concat", fams=["stack", "binary"], rows=1, steps=2, level=1, **T12),
        dict(what="laws, one table, <=3 rows, every unary step", fams=UNARY, rows=3, steps=1, level=1, tier=("thorough",), timeout=3000, **T1),
    ],
    "emit": [micro(2, 8), micro(3, 60, ("thorough",)), MICRO_FORK, MICRO_OW,
        dict(what="all 1-step pipelines over all tables with <=1 row", fams=UNARY, rows=1, steps=1, level=1, **T1),
        dict(what="all 1-step pipelines over all tables with <=2 rows", fams=UNARY, rows=2, steps=1, level=1,
             tier=("thorough",), **T1),
    ],
    "sim": dict(what="random pipelines of 3 steps over 2 tables of <=3 rows", num=(1200, 5000), rows=3, steps=3, **SIMT),
    "sims": INTERACTIONS,
    "merge_traces": True,
    "backends": ("pandas", "sqlite"),
    "differential": {"pandas": "sqlite", "sqlite": "pandas"},
    "allow_raise": (),
}


def has_op(case, ops):
    return any(st[0] in ops for st, h in zip(case["prog"], case["hist"]) if h["ok"])


def nt_rows(case, n=2):
    return any(len(t["rows"]) >= n for t in case["inp"].values())


PLAN_C03 = {
    "mc": [dict(what="laws, one table, <=2 rows, every unary step", fams=UNARY, rows=2, steps=1, level=1, **T1)],
    "emit": [JOIN_SHARED, MICRO_OW, micro(2, 8), micro(3, 60, ("thorough",)), dict(what="all 1-step pipelines over all tables with <=1 row", fams=UNARY, rows=1, steps=1, level=1, **T1)],
    "sim": dict(what="random pipelines of 3 steps over 2 tables of <=3 rows", num=(1500, 5000), rows=3, steps=3, **SIMT),
    "backends": ("pandas", "polars", "polars_lazy"),
    "differential": {"polars": "pandas", "polars_lazy": "pandas", "pandas": "polars"},
    "assumptions": ["a raising Polars executor is allowed by the property; counted in outcomes as polars:raised_allowed"],
}

PLAN_C02 = {
    "mc": [dict(what="laws, two tables, <=1 row, join/concat", fams=["stack", "binary"], rows=1, steps=2, level=1, **T12)],
    "emit": [micro(2, 8), micro(3, 60, ("thorough",)), MICRO_FORK, dict(what="all 1-step pipelines over all tables with <=1 row", fams=UNARY, rows=1, steps=1, level=1, **T1)],
    "sim": dict(what="random pipelines of 3 steps over 2 tables of <=3 rows", num=(1500, 5000), rows=3, steps=3, **SIMT),
    "backends": ("pandas", "pg"),
    "level": "other",
    "explanation": "model checking of the reference laws plus replay of TLC-generated behaviours into PostgreSQLModel.to_sql, whose text is "
                   "executed on SQLite 3.40 as a proxy because no PostgreSQL engine exists in the sandbox; the counts under states / "
                   "transitions / traces_validated_against_impl are those of this run",
    "differential": {"pandas": "pg", "pg": "pandas"},
    "allow_raise": (),
    "assumptions": ["NO PostgreSQL engine exists in the sandbox: the SQL text produced by PostgreSQLModel.to_sql is executed on "
                    "SQLite 3.40, which accepts the generated fragment verbatim (double-quoted identifiers, WITH, window "
                    "functions, native RIGHT/FULL JOIN, COALESCE, CASE); engine-level differences between PostgreSQL and "
                    "SQLite are outside what this check can see"],
}

PLAN_C08 = {
    "mc": [
        dict(what="DeclaredCols, one table, <=2 rows, every unary step", fams=UNARY, rows=2, steps=1, level=1, **T1),
        dict(what="DeclaredCols, two tables, <=1 row, join/concat", fams=["stack", "binary"], rows=1, steps=2, level=1, **T12),
    ],
    "emit": [micro(2, 8), micro(3, 60, ("thorough",)), dict(what="all 1-step pipelines over all tables with <=1 row", fams=UNARY, rows=1, steps=1, level=1, **T1)],
    "sim": dict(what="random pipelines of 3 steps over 2 tables of <=3 rows", num=(1500, 5000), rows=3, steps=3, **SIMT),
    "backends": ("pandas", "sqlite", "pg", "polars"),
    "opts": {"values": False, "col_order": True, "variants": [None, "extracol"]},
    "sims": [inter(["cols", "order"], num=(300, 1500), steps=2), inter(["cols", "order", "select_rows"], num=(300, 1500), steps=3)],
    "exec_traces": ("columns", "walk"),
    "allow_raise": ("pandas", "sqlite", "pg", "polars"),
    "assumptions": ["every behaviour is also evaluated on inputs that have one more column than their description mentions "
                    "(placed first); the results must still have exactly the declared columns",
                    "only the column set (and the column order after select_columns) is compared; a backend that raises "
                    "returns no table and is not judged by this property",
                    "PostgreSQL dialect SQL is executed on SQLite (proxy)"],
}

AGG = ["project", "wextend", "extend", "select_rows", "cols", "order"]
PLAN_C09 = {
    "mc": [
        dict(what="laws (ProjectCardinality, WindowKeepsRows in StepLaw), one table, <=2 rows", fams=["project", "wextend"],
             rows=2, steps=1, level=1, **T1),
        dict(what="laws, one table, <=3 rows, project/windowed extend", fams=["project", "wextend"], rows=3, steps=1, level=1,
             tier=("thorough",), **T1),
        dict(what="laws, project after project / extend (2 steps), <=1 row", fams=["project", "extend"],
             rows=1, steps=2, level=1, **T1),
    ],
    "emit": [micro(2, 8), micro(3, 60, ("thorough",)), 
        dict(what="every project / windowed extend over all tables with <=2 rows (one in 40 replayed)",
             fams=["project", "wextend"], rows=2, steps=1, level=1, one_in=40, **T1),
    ],
    "sim": dict(what="random pipelines around project and windowed extend", fams=AGG, num=(1200, 5000), rows=3, steps=3, **SIMT),
    "sims": [inter(["extend", "project"]), inter(["project", "cols"], steps=2), inter(["extend", "wextend"])],
    "backends": ("pandas", "sqlite", "polars"),
    "nontrivial": lambda c: has_op(c, ("project", "wextend")) and nt_rows(c, 2),
    "exec_traces": ("rows:ProjectNode", "rows:ExtendNode", "rows:SelectRowsNode", "rows:SelectColumnsNode", "rows:DropColumnsNode",
                    "rows:RenameColumnsNode", "rows:MapColumnsNode"),
    "relevant_ops": ("project", "wextend"),
    "limit": (6000, 30000),
}

JOINF = ["stack", "binary", "extend", "select_rows", "cols"]
PLAN_C16 = {
    "mc": [
        dict(what="join laws (row counts, null keys never match, coalesce), two tables, <=2 rows", fams=["stack", "binary"],
             rows=2, steps=2, level=1, tabcols="MCJ_TabCols", colvals="MCJ_ColVals"),
    ],
    "emit": [JOIN_SHARED, JOIN_2KEYS,
        dict(what="every join type x key spec over all table pairs with <=1 row (one in 5 replayed)",
             fams=["stack", "binary"], rows=1, steps=2, level=2, one_in=5, **T12),
    ],
    "sim": dict(what="random pipelines around natural_join", fams=JOINF, num=(1500, 5000), rows=3, steps=3, **SIMT),
    "backends": ("pandas", "sqlite", "pg", "polars"),
    "nontrivial": lambda c: has_op(c, ("join", "joinc")) and all(len(t["rows"]) >= 1 for t in c["inp"].values()),
    "exec_traces": ("rows:NaturalJoinNode", "rows:ConcatRowsNode"),
    "relevant_ops": ("join", "joinc"),
}

WINF = ["wextend", "extend", "select_rows", "cols", "order"]
PLAN_C27 = {
    "mc": [
        dict(what="window laws, one table, <=2 rows", fams=["wextend"], rows=2, steps=1, level=1, **T1),
        dict(what="window laws, one table, <=3 rows", fams=["wextend"], rows=3, steps=1, level=1, tier=("thorough",), **T1),
    ],
    "emit": [MICRO_W2, MICRO_OW, micro(2, 8), micro(3, 60, ("thorough",)), dict(what="every windowed extend over all tables with <=2 rows (one in 30 replayed)", fams=["wextend"],
                  rows=2, steps=1, level=1, one_in=30, **T1)],
    "sim": dict(what="random pipelines around windowed extend", fams=WINF, num=(1500, 5000), rows=4, steps=2, **SIMT),
    "sims": [inter(["extend", "wextend"], rows=4), inter(["wextend"], rows=4, steps=2)],
    "backends": ("pandas", "sqlite", "polars"),
    "nontrivial": lambda c: has_op(c, ("wextend",)) and nt_rows(c, 2),
    "relevant_ops": ("wextend",),
}

PLAN_C18 = {
    "mc": [
        dict(what="PermLaw and OrderSorted/LimitIsPrefix (StepLaw), one table, <=2 rows", fams=UNARY, rows=2, steps=1, level=1, **T1),
        dict(what="PermLaw, two tables, <=1 row, join/concat", fams=["stack", "binary"], rows=1, steps=2, level=1, **T12),
    ],
    "emit": [micro(2, 8), micro(3, 60, ("thorough",)), dict(what="every order_rows over all tables with <=2 rows", fams=["order"], rows=2, steps=1, level=1, **T1)],
    "sim": dict(what="random pipelines of 3 steps over 2 tables of <=3 rows", num=(700, 6000), rows=3, steps=3, **SIMT),
    "backends": ("pandas", "sqlite", "polars"),
    "opts": {"variants": [None, "perm", "perm_keepidx", "dupidx", "stridx"]},
    "nontrivial": lambda c: nt_rows(c, 2),
    "exec_traces": ("rows:OrderRowsNode",),
    "limit": (3000, 12000),
    "assumptions": ["inputs are evaluated as given, row-permuted, and (Pandas) with a shuffled integer index, duplicate "
                    "index labels and a text index; every variant must give the reference bag, and the reference "
                    "sequence directly after a total order_rows"],
}


T5 = dict(tabcols="MC5_TabCols", colvals="MC5_ColVals")
PLAN_C05 = {
    "mc": [dict(what="laws of the reference on single-method extends over all 1-row tables (x in {null,-2,0,1,3}, y in {null,-1,0,2})",
                fams=["extend"], rows=1, steps=1, level=3, invariants=["DeclaredCols", "HistOK", "StepLaw"], **T5)],
    "emit": [
        dict(what="every catalogued scalar method x every argument tuple: all 1-row tables", fams=["extend"], rows=1, steps=1, level=3, **T5),
        dict(what="every catalogued scalar method over all 2-row tables (sampled)", fams=["extend"], rows=2, steps=1, level=3, one_in=12,
             **T5),
        dict(what="text methods (concat, trimstr, mapv, is_in, coalesce, ==, !=, is_null over text): all 1-row tables with g, h in "
                  "{null, s0, s1, s2}", fams=["extend"], rows=1, steps=1, level=3, tabcols="MC5S_TabCols", colvals="MC5S_ColVals"),
        dict(what="methods defined on infinite values (is_null, is_bad, coalesce, coalesce_0, negation, abs, sign): all 1-row tables with "
                  "x in {null, +inf, -inf, 1}", fams=["extend"], rows=1, steps=1, level=3, tabcols="MC5_TabCols", colvals="MC5I_ColVals"),
    ],
    "sim": None,
    "backends": ("pandas", "sqlite", "pg", "polars"),
    "allow_raise": ("polars", "polars_lazy"),
    "nontrivial": lambda c: nt_rows(c, 1),
    "limit": (8000, 30000),
    "assumptions": ["scalar methods with an exact documented meaning: arithmetic + - * / // % ** mod remainder (// % on non-negative "
                    "operands and a positive divisor, ** with exponent 0..3), comparisons, and/or/not, maximum/minimum/fmax/fmin, "
                    "coalesce, coalesce_0, abs, sign, negation, is_null, is_bad, is_nan, if_else, where, is_in; floor / ceil / round "
                    "(numpy: halves to even) / as_int64 (truncation) / abs / sign / negation of exact halves and quarters (x / 2, x / 4); "
                    "transcendental methods are uninterpreted in the spec (null propagation and domain only) and realised with "
                    "Python's math module; aggregates and window functions are checked by C09 and C27",
                    "text methods concat / trimstr / mapv / is_in are covered with symbolic results realised by the harness; "
                    "date/time, as_str, around(n) with n > 0 and random methods are not covered",
                    "PostgreSQL-dialect SQL is executed on SQLite (proxy)"],
}


def check_C01(tier, replay=None):
    return run_plan("C01", tier, PLAN_C01, replay)


def mk(prop, plan):
    def f(tier, replay=None):
        return run_plan(prop, tier, plan, replay)
    return f


CHECKS = {
    "C01": check_C01,
    "C02": mk("C02", PLAN_C02),
    "C03": mk("C03", PLAN_C03),
    "C05": mk("C05", PLAN_C05),
    "C08": mk("C08", PLAN_C08),
    "C09": mk("C09", PLAN_C09),
    "C16": mk("C16", PLAN_C16),
    "C18": mk("C18", PLAN_C18),
    "C27": mk("C27", PLAN_C27),
}
