"""C17: record transforms are invertible and compose as documented (spec/Records.tla).

TLC checks InverseLaw / ComposeLaw / ShapeLaw on the reference block <-> row-record semantics for every control
table shape in bounds (1-2 control key columns, 1-3 control rows, 1-2 value columns, 1-2 record keys) and every
data table, and emits the cases; each is replayed on RecordMap.transform / inverse / compose / >> with Pandas and
Polars frames (rows and columns also permuted) and through convert_records on SQLite.  The same cases feed the
record-map parts of C11 (equality) and C12 (printing)."""
import collections
import hashlib
import json
import multiprocessing
import os
import pickle
import sys
import time
import traceback
import warnings

warnings.filterwarnings("ignore")

from . import common
from . import relchecks as rc
from .sm_props import parse_hist_cases

if common.REPO not in sys.path:
    sys.path.insert(0, common.REPO)
os.environ.setdefault("DATA_ALGEBRA_VERIF", "1")


# names of the value columns of a block: in control-table order they are either alphabetically ascending (v1, v2) or
# descending (v9, v8); chosen per case (C15: no result may depend on how columns are named)
_VN = {"desc": False}


def _vname(j):
    return "v%d" % ((9 - j) if _VN["desc"] else (j + 1))


def _spec(ct, nrk, key_prefix="ck", strict=True):
    import pandas
    from data_algebra.cdata import RecordSpecification
    nk = len(ct["keys"][0])
    nv = len(ct["cells"][0])
    cols = collections.OrderedDict()
    for j in range(nk):
        cols["%s%d" % (key_prefix, j + 1)] = [row[j] for row in ct["keys"]]
    for j in range(nv):
        cols[_vname(j)] = [row[j] for row in ct["cells"]]
    control = pandas.DataFrame(cols)
    if _VN["desc"] and control.shape[0] >= 2:
        # a legal control table whose index is not 0..n-1 in order (e.g. after sort_values): the index carries no meaning
        control.index = list(range(control.shape[0]))[::-1]
    return RecordSpecification(control, record_keys=["id%d" % (i + 1) for i in range(nrk)],
                               control_table_keys=["%s%d" % (key_prefix, j + 1) for j in range(nk)], strict=strict)


def _rows_frame(case):
    import pandas
    nrk = case["nrk"]
    cells = sorted({c for row in case["ctrl"]["cells"] for c in row})
    data = {"id%d" % (i + 1): [r["rk"][i] for r in case["recs"]] for i in range(nrk)}
    for c in cells:
        data[c] = [float(r["vals"][c]) for r in case["recs"]]
    return pandas.DataFrame(data)


def _blocks_frame(blocks, nrk, key_prefix="ck", ct=None):
    import pandas
    if len(blocks) == 0:
        nk, nv = len(ct["keys"][0]), len(ct["cells"][0])
        cols = ["id%d" % (i + 1) for i in range(nrk)] + ["%s%d" % (key_prefix, j + 1) for j in range(nk)] + [_vname(j) for j in range(nv)]
        return pandas.DataFrame({c: pandas.Series([], dtype=("str" if c.startswith(key_prefix) else "float64")) for c in cols})
    nk = len(blocks[0]["ck"])
    nv = len(blocks[0]["v"])
    data = {"id%d" % (i + 1): [b["rk"][i] for b in blocks] for i in range(nrk)}
    for j in range(nk):
        data["%s%d" % (key_prefix, j + 1)] = [b["ck"][j] for b in blocks]
    for j in range(nv):
        data[_vname(j)] = [float(b["v"][j]) for b in blocks]
    return pandas.DataFrame(data)


def _canon(df):
    """frame -> (sorted column names, sorted rows) with floats for numbers"""
    import polars
    if isinstance(df, polars.LazyFrame):
        df = df.collect()
    if isinstance(df, polars.DataFrame):
        df = df.to_pandas()
    cols = sorted(str(c) for c in df.columns)
    rows = []
    for rec in df.to_dict(orient="records"):
        row = []
        for c in cols:
            v = rec[c]
            if isinstance(v, str):
                row.append(v)
            elif v is None or v != v:
                row.append(None)
            else:
                row.append(float(v))
        rows.append(tuple(row))
    return cols, sorted(rows, key=lambda r: tuple((0, "") if x is None else ((1, x) if isinstance(x, str) else (2, x)) for x in r))


def _same(a, b):
    return _canon(a) == _canon(b)


def w_c17(case):
    try:
        return _w_c17(case)
    except Exception:  # noqa: BLE001
        return {"status": "crash", "detail": traceback.format_exc()[-1500:]}


def _w_c17(case):
    import pandas
    import polars
    from data_algebra.cdata import RecordMap
    nrk = case["nrk"]
    if len(case["ctrl"]["keys"]) < 2:
        # a one-row control table IS the row-record form; RecordMap asks for a real block layout
        return {"status": "skip", "stats": {"one_row_control_table": 1}}
    _VN["desc"] = (int(hashlib.sha1(json.dumps(case, sort_keys=True).encode()).hexdigest(), 16) % 2) == 1
    spec = _spec(case["ctrl"], nrk)
    tall = _spec(case["tall"], nrk, key_prefix="tk")
    rows = _rows_frame(case)
    blocks = _blocks_frame(case["blocks"], nrk, ct=case["ctrl"])
    tallb = _blocks_frame(case["tallblocks"], nrk, key_prefix="tk", ct=case["tall"])
    m_out, m_in = RecordMap(blocks_out=spec), RecordMap(blocks_in=spec)
    t_out, t_in = RecordMap(blocks_out=tall), RecordMap(blocks_in=tall)
    stats = collections.Counter()

    def bad(tag, why, **kw):
        d = {"why": why}
        d.update({k: (str(v)[:600]) for k, v in kw.items()})
        return {"status": "violation", "tag": tag, "detail": d}
    nper = len(case["ctrl"]["keys"])

    def interleave(f):
        """rows grouped by control row, the records ascending in even groups and descending in odd ones (the relative
        order of the records differs from block to block), index kept"""
        if f.shape[0] != nper * len(case["recs"]):
            return f.iloc[::-1]
        idx = sorted(range(f.shape[0]), key=lambda q: (q % nper, (q // nper) if (q % nper) % 2 == 0 else -(q // nper)))
        return f.iloc[idx]
    variants = {"pandas": lambda f: f, "polars": lambda f: polars.DataFrame(f),
                "pandas/permuted": lambda f: f.iloc[::-1, ::-1].reset_index(drop=True),
                "polars/permuted": lambda f: polars.DataFrame(f.iloc[::-1, ::-1].reset_index(drop=True)),
                "pandas/interleaved": interleave,
                "polars/interleaved": lambda f: polars.DataFrame(interleave(f).reset_index(drop=True))}
    for vn, mk in variants.items():
        try:
            got_b = m_out.transform(mk(rows))
            got_r = m_in.transform(mk(blocks))
        except Exception as ex:  # noqa: BLE001
            if vn.startswith("polars"):
                stats["polars_raised"] += 1
                continue
            return bad("transform-raised:" + vn, "%s: %s" % (type(ex).__name__, str(ex)[:300]))
        stats["transforms"] += 2
        if not _same(got_b, blocks):
            return bad("rows-to-blocks:" + vn, "RecordMap(blocks_out).transform differs from the reference", got=_canon(got_b), want=_canon(blocks))
        if not _same(got_r, rows):
            return bad("blocks-to-rows:" + vn, "RecordMap(blocks_in).transform differs from the reference", got=_canon(got_r), want=_canon(rows))
        # inverse
        try:
            back_r = m_out.inverse().transform(got_b)
            back_b = m_in.inverse().transform(got_r)
        except Exception as ex:  # noqa: BLE001
            return bad("inverse-raised:" + vn, "%s: %s" % (type(ex).__name__, str(ex)[:300]))
        if not _same(back_r, rows) or not _same(back_b, blocks):
            return bad("inverse:" + vn, "transform then inverse() does not return the original table",
                       rows_back=_canon(back_r), blocks_back=_canon(back_b))
    # block -> block in one map, and by composition
    one = RecordMap(blocks_in=spec, blocks_out=tall)
    try:
        if not _same(one.transform(blocks), tallb):
            return bad("blocks-to-blocks", "RecordMap(blocks_in, blocks_out).transform differs from the reference",
                       got=_canon(one.transform(blocks)), want=_canon(tallb))
    except Exception as ex:  # noqa: BLE001
        return bad("blocks-to-blocks-raised", "%s: %s" % (type(ex).__name__, str(ex)[:300]))
    seq = t_out.transform(m_in.transform(blocks))
    if not _same(seq, tallb):
        return bad("sequential", "applying blocks->rows then rows->blocks differs from the reference", got=_canon(seq), want=_canon(tallb))
    forms = {"compose": lambda: t_out.compose(m_in), ">>": lambda: m_in >> t_out}
    for name, f in forms.items():
        try:
            comp = f()
            if comp is None:
                stats["compose_none"] += 1
                continue
            got = comp.transform(blocks)
        except Exception as ex:  # noqa: BLE001
            return bad("compose-raised:" + name, "%s: %s" % (type(ex).__name__, str(ex)[:300]))
        stats["compositions"] += 1
        if not _same(got, seq):
            return bad("compose:" + name, "the composite map differs from applying the maps one after the other",
                       got=_canon(got), want=_canon(seq), composite=comp)
    # identity composite: a map with its own inverse
    try:
        ident = m_in.compose(m_out)     # rows -> blocks -> rows
        if ident is not None and not _same(ident.transform(rows), rows):
            return bad("compose-inverse", "map composed with its inverse is not the identity", got=_canon(ident.transform(rows)))
    except Exception as ex:  # noqa: BLE001
        return bad("compose-inverse-raised", "%s: %s" % (type(ex).__name__, str(ex)[:300]))
    # SQL (SQLite) through convert_records
    try:
        import data_algebra.SQLite
        from data_algebra.data_ops import describe_table
        h = data_algebra.SQLite.example_handle()
        try:
            h.insert_table(rows, table_name="r", allow_overwrite=True)
            h.insert_table(blocks, table_name="b", allow_overwrite=True)
            q1 = h.read_query(describe_table(rows, table_name="r").convert_records(m_out))
            q2 = h.read_query(describe_table(blocks, table_name="b").convert_records(m_in))
        finally:
            h.close()
        stats["sql"] += 2
        if not _same(q1, blocks) or not _same(q2, rows):
            return bad("sql", "convert_records on SQLite differs from the reference", got_blocks=_canon(q1), got_rows=_canon(q2))
    except Exception as ex:  # noqa: BLE001
        return bad("sql-raised", "%s: %s" % (type(ex).__name__, str(ex)[:300]))
    # compositions with a ROW-FORM end (checked last: a failure here is a recorded finding and must not mask the rest)
    late = []
    rowforms = {"rows->blocks >> blocks->blocks": (lambda: m_out >> one, rows, tallb),
                "blocks->blocks >> blocks->rows": (lambda: one >> t_in, blocks, rows)}
    for name, (f, src, want) in rowforms.items():
        try:
            comp = f()
            if comp is None:
                stats["compose_none"] += 1
                continue
            got = comp.transform(src)
        except Exception as ex:  # noqa: BLE001
            late.append(bad("compose-rowform-raised:" + name, "%s: %s" % (type(ex).__name__, str(ex)[:300])))
            continue
        stats["compositions_rowform"] += 1
        if not _same(got, want):
            late.append(bad("compose-rowform:" + name, "the composite map differs from applying the maps one after the other",
                            got=_canon(got), want=_canon(want)))
    return {"status": "ok", "stats": dict(stats), "nontrivial": len(case["ctrl"]["keys"]) >= 2 and len(case["recs"]) >= 1,
            "late": late}


def rec_cases(tr, tier, maxrecs=None):
    from .sm_props import run_sm
    quick = tier == "quick"
    lines = []
    laws = ["InverseLaw", "ComposeLaw", "ShapeLaw"]
    viol = []
    for n, vals in ((0, "MC_Vals"), (1, "MC_Vals3"), (2, "MC_Vals")) + (() if quick else ((2, "MC_Vals3"),)):
        r = run_sm("MC_Records", {"MaxRecs": "= %d" % n, "Vals": "<- " + vals}, invariants=laws, emit="Emit", tr=tr,
                   what="all control table shapes x all tables of %d records over %s: InverseLaw, ComposeLaw, ShapeLaw" % (n, vals))
        if r.violated:
            viol.append(r)
        lines += r.lines
    return parse_hist_cases(lines, limit=(1200 if quick else 4000)), viol


def check_C17(tier, replay=None):
    t0 = time.time()
    vd = common.Verdicts("C17")
    tr = rc.TlcRun()
    stats = collections.Counter()
    if replay:
        rec = json.load(open(replay))
        out = w_c17(rec["case"])
        print(json.dumps(out, indent=1, default=str)[:5000])
        return 1 if (out["status"] != "ok" or out.get("late")) else 0
    cases, viol = rec_cases(tr, tier)
    for r in viol:
        rc.law_violation(vd, r, "Records laws")
    nontriv = 0
    ctx = multiprocessing.get_context("fork")
    with ctx.Pool(16) as pool:
        for case, out in zip(cases, pool.imap(w_c17, cases, chunksize=8)):
            stats["cases"] += 1
            stats[out["status"]] += 1
            for k, v in out.get("stats", {}).items():
                stats[k] += v
            if out.get("nontrivial"):
                nontriv += 1
            if out["status"] == "crash":
                raise common.MachineryError("worker crashed: " + out["detail"])
            for o in ([out] if out["status"] == "violation" else []) + list(out.get("late", [])):
                fid = None
                for f in vd.findings.get("findings", []):
                    if "C17" in f.get("properties", []) and f.get("kind") == "records" and o["tag"].startswith(f["tag_prefix"]):
                        fid = f["id"]
                if fid:
                    vd.note_known(fid)
                    stats["KF:" + fid] += 1
                    continue
                vd.violation({"kind": "C17", "case": case, "detail": o["detail"]}, tag=o["tag"])
    cov = {"states": tr.states, "transitions": tr.transitions, "traces_validated_against_impl": stats["cases"],
           "samples": [{"control_table": c["ctrl"], "records": c["recs"], "blocks": c["blocks"]} for c in cases[-2:]],
           "evaluations": stats["cases"], "distinct_nontrivial": nontriv,
           "rule": "control tables with 1-2 key columns, 1-3 rows, 1-2 value columns and 1-2 record keys, data tables of 0-2 records "
                   "enumerated by TLC with the reference block form, row-record form and the tall re-layout; non-trivial = at least two "
                   "control rows and one record", "tlc_runs": tr.runs, "outcomes": dict(stats),
           "known_findings_seen": dict(vd.known), "exhaustive": False}
    common.write_evidence("C17", tier, "model_checking", cov, time.time() - t0, len(vd.violations),
                          assumptions=["strict record specifications with complete blocks (what the property quantifies over)",
                                       "tables are compared as bags of rows over the same column set"])
    return vd.report()


# ---------------------------------------------------------------------------------- record-map parts of C11 / C12
def records_c11(vd, stats, tier):
    """specifications that differ in one key value or one cell name must not compare equal (C11)"""
    from data_algebra.cdata import RecordMap
    from data_algebra.data_ops import TableDescription
    import copy
    tr = rc.TlcRun()
    cases, _ = rec_cases(tr, "quick")
    seen = set()
    n = 0
    for case in cases:
        ct = case["ctrl"]
        key = json.dumps(ct, sort_keys=True) + str(case["nrk"])
        if key in seen or len(ct["keys"]) < 2:
            continue
        seen.add(key)
        base = _spec(ct, case["nrk"])
        muts = []
        c2 = copy.deepcopy(ct)
        c2["keys"][0], c2["keys"][1] = c2["keys"][1], c2["keys"][0]
        muts.append(("control keys exchanged", c2))
        c3 = copy.deepcopy(ct)
        c3["cells"][0][0], c3["cells"][1][0] = c3["cells"][1][0], c3["cells"][0][0]
        muts.append(("cell names exchanged", c3))
        for what, m in muts:
            other = _spec(m, case["nrk"])
            n += 1
            for form, a, b in (("RecordSpecification", base, other),
                               ("RecordMap(blocks_in)", RecordMap(blocks_in=base), RecordMap(blocks_in=other)),
                               ("RecordMap(blocks_out)", RecordMap(blocks_out=base), RecordMap(blocks_out=other)),
                               ("RecordMap(blocks_in, blocks_out differ)", RecordMap(blocks_in=base, blocks_out=base),
                                RecordMap(blocks_in=base, blocks_out=other)),
                               ("RecordMap(blocks_in differ, blocks_out)", RecordMap(blocks_in=base, blocks_out=base),
                                RecordMap(blocks_in=other, blocks_out=base)),
                               ("convert_records pipeline",
                                TableDescription(table_name="d", column_names=list(RecordMap(blocks_in=base).columns_needed)).convert_records(RecordMap(blocks_in=base)),
                                TableDescription(table_name="d", column_names=list(RecordMap(blocks_in=other).columns_needed)).convert_records(RecordMap(blocks_in=other)))):
                stats["record_pairs"] += 1
                if (a == b) or (b == a) or not (a != b):
                    fid = None
                    for f in vd.findings.get("findings", []):
                        if "C11" in f.get("properties", []) and f.get("kind") == "records-eq" and f["form"] == form:
                            fid = f["id"]
                    if fid:
                        vd.note_known(fid)
                        continue
                    vd.violation({"kind": "records-eq", "form": form, "what": what, "control_table": ct, "mutated": m},
                                 tag="records-eq:" + form)
        if not (base == _spec(ct, case["nrk"])):
            vd.violation({"kind": "records-eq", "what": "two identically built specifications compare unequal", "control_table": ct})
    return {"record_specification_pairs": n, "states": tr.states, "transitions": tr.transitions, "tlc_runs": tr.runs}


def records_c12(vd, stats, tier):
    """convert_records steps print to text that rebuilds an equal pipeline (C12)"""
    from data_algebra.cdata import RecordMap
    from data_algebra.data_ops import TableDescription
    from data_algebra.expr_parse_fn import eval_da_ops
    tr = rc.TlcRun()
    cases, _ = rec_cases(tr, "quick")
    seen = set()
    n = 0
    for case in cases:
        ct = case["ctrl"]
        key = json.dumps(ct, sort_keys=True) + str(case["nrk"])
        if key in seen or len(ct["keys"]) < 2:
            continue
        seen.add(key)
        # the control key column is deliberately NOT the first column of the control table in one variant
        for variant in ("plain", "keys-last"):
            spec = _spec(ct, case["nrk"])
            if variant == "keys-last":
                from data_algebra.cdata import RecordSpecification
                ctab = spec.control_table[[c for c in spec.control_table.columns if c not in spec.control_table_keys] + list(spec.control_table_keys)]
                spec = RecordSpecification(ctab, record_keys=spec.record_keys, control_table_keys=spec.control_table_keys)
            for m in (RecordMap(blocks_in=spec), RecordMap(blocks_out=spec)):
                ops = TableDescription(table_name="d", column_names=list(m.columns_needed)).convert_records(m)
                n += 1
                for form, f in (("to_python", lambda: ops.to_python(pretty=False)), ("pretty", lambda: ops.to_python(pretty=True)),
                                ("repr", lambda: repr(ops))):
                    stats["record_prints"] += 1
                    try:
                        src = f()
                        ops2 = eval_da_ops(src, data_model_map={})
                        ok = (ops2 == ops) and (ops == ops2) and ops2.to_python(pretty=False) == ops.to_python(pretty=False)
                        why = "rebuilt pipeline is not equal"
                    except Exception as ex:  # noqa: BLE001
                        ok, why, src = False, "%s: %s" % (type(ex).__name__, str(ex)[:300]), None
                    if not ok:
                        vd.violation({"kind": "records-print", "form": form, "variant": variant, "why": why, "printed": src, "control_table": ct},
                                     tag="records-print:" + form)
                if not (pickle.loads(pickle.dumps(ops)) == ops):
                    vd.violation({"kind": "records-print", "form": "pickle", "control_table": ct}, tag="records-print:pickle")
    return {"record_map_prints": n, "states": tr.states, "transitions": tr.transitions, "tlc_runs": tr.runs}


CHECKS = {"C17": check_C17}
