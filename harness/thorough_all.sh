#!/bin/bash
# run the thorough tier of every check once (unchanged tree); one line per check
for p in "$@"; do
  t0=$(date +%s)
  out=$(./check $p --tier thorough 2>&1); rc=$?
  echo "thorough $p exit=$rc $(( $(date +%s)-t0 ))s $(echo "$out" | grep -m2 '^VIOLATION\|^MACHINERY' | tr '\n' ' ' | cut -c1-300)"
  if [ $rc -ne 0 ]; then mkdir -p sweep_fail; echo "$out" > sweep_fail/${p}_thorough.log; cp -r replays/$p sweep_fail/${p}_thorough_replays 2>/dev/null; fi
  cp evidence/$p.json sweep_fail/ 2>/dev/null || (mkdir -p sweep_fail && cp evidence/$p.json sweep_fail/)
done
