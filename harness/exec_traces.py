"""Code -> spec for the Pandas executor: step events recorded by the guarded hook (data_algebra/_verif_trace.py)
during the replay of TLC behaviours and during a subset of the repository's own tests are validated by TLC against
spec/Trace_ExecSteps.tla (every law at every intermediate node of every recorded evaluation)."""
import glob
import hashlib
import json
import os
import random
import re
import shutil
import subprocess
import tempfile

from . import common

REPO_TESTS = ["tests/test_agg.py", "tests/test_any_project.py", "tests/test_arith.py", "tests/test_cc.py", "tests/test_cdata1.py",
              "tests/test_coalesce.py", "tests/test_complex_expr.py", "tests/test_compound_where.py", "tests/test_concat_rows.py",
              "tests/test_cross_product_join.py", "tests/test_degenerate_project.py", "tests/test_drop_columns.py", "tests/test_extend.py",
              "tests/test_extend_order.py", "tests/test_first_last.py", "tests/test_if_else.py", "tests/test_incomplete_agg.py",
              "tests/test_join_conditions.py", "tests/test_join_effects.py", "tests/test_join_multi_key.py", "tests/test_join_variations.py",
              "tests/test_mapv.py", "tests/test_minimum.py", "tests/test_natural_join.py", "tests/test_neg.py", "tests/test_ngroup.py",
              "tests/test_idioms.py", "tests/test_example1.py", "tests/test_expand_rows.py", "tests/test_locf.py"]


def start(tag="exec"):
    prefix = os.path.join(common.scratch(), "%s_trace" % tag)
    os.environ["DATA_ALGEBRA_VERIF_TRACE"] = prefix
    return prefix


def stop():
    os.environ.pop("DATA_ALGEBRA_VERIF_TRACE", None)


def read_traces(prefix, limit=None, rng=None):
    """split the per-process event files into traces (one per top-level evaluation), de-duplicated"""
    seen, out = set(), []
    for fn in sorted(glob.glob(prefix + ".*")):
        cur = []
        with open(fn) as f:
            for line in f:
                try:
                    ev = json.loads(line)
                except ValueError:
                    continue
                if "sqlgen" in ev:
                    continue
                ev.setdefault("backend", "pandas")
                cur.append(ev)
                if ev["depth"] == 0:
                    key = hashlib.sha1(json.dumps([{k: v for k, v in e.items() if k != "seq"} for e in cur], sort_keys=True).encode()).hexdigest()
                    if key not in seen:
                        seen.add(key)
                        out.append(cur)
                    cur = []
    if limit and len(out) > limit:
        out = (rng or random.Random(common.seed())).sample(out, limit)
    return out


def repo_test_traces(timeout=420):
    """run a fast subset of /repo's own tests with the hook on (scratch copy, removed afterwards)"""
    w = tempfile.mkdtemp(prefix="verif_repotests_")
    try:
        dst = os.path.join(w, "repo")
        shutil.copytree(common.REPO, dst, ignore=shutil.ignore_patterns(".git", "__pycache__", "*.pyc"))
        prefix = os.path.join(w, "repotests_trace")
        env = dict(os.environ, DATA_ALGEBRA_VERIF="1", DATA_ALGEBRA_VERIF_TRACE=prefix, PYTHONPATH=dst)
        tests = [t for t in REPO_TESTS if os.path.exists(os.path.join(dst, t))]
        try:
            subprocess.run(["/venv/bin/python", "-m", "pytest", "-q", "-p", "no:cacheprovider", "--timeout=120"] + tests,
                           cwd=dst, env=env, stdout=subprocess.DEVNULL, stderr=subprocess.DEVNULL, timeout=timeout)
        except subprocess.TimeoutExpired:
            pass
        return read_traces(prefix), len(tests)
    finally:
        shutil.rmtree(w, ignore_errors=True)


def validate(traces, tr, what):
    """returns {trace index (0-based): (law, event index)} for rejected traces"""
    if not traces:
        return {}
    sc = common.spec_copy()
    path = os.path.join(sc, "exec_traces_%d.json" % len(tr.runs))
    with open(path, "w") as f:
        json.dump(traces, f)
    cfg = os.path.join(sc, "exec_traces_%d.cfg" % len(tr.runs))
    common.write_cfg(cfg, spec="TSpec", constants={})
    res = common.run_tlc(os.path.join(sc, "Trace_ExecSteps.tla"), cfg, workers=16, timeout=900, cwd=sc, env={"TRACE_FILE": path})
    common.tlc_or_die(res, what)
    tr.add(what, res)
    rej, acc = {}, 0
    for ln in res.lines:
        m = re.match(r"^REJ (\S+) (\d+) (\d+)$", ln)
        if m:
            rej[int(m.group(2)) - 1] = (m.group(1), int(m.group(3)) - 1)
        elif ln.startswith("ACC "):
            acc += 1
    if acc + len(rej) != len(traces):
        raise common.MachineryError("%s: %d traces but %d accepted + %d rejected" % (what, len(traces), acc, len(rej)))
    return rej


def classify(trace, law, idx):
    ev = trace[idx]
    if (law == "rows" and ev["backend"] == "pandas" and ev["kind"] == "ProjectNode" and ev["n_groups_nonnull"] < ev["n_groups"]
            and ev["out_rows"] == ev["n_groups_nonnull"]):
        return "pandas_drops_null_groups"
    return None


def _corrupted(traces):
    """[(trace, law, event index)]: copies of recorded traces with one field of one event changed"""
    out = []
    for t in traces:
        if all(e["ok"] for e in t) and all(e["out_rows"] >= 0 and min(e["in_rows"] + [0]) >= 0 for e in t):
            c = json.loads(json.dumps(t))
            c[-1]["out_cols"] = c[-1]["out_cols"] + ["verif_extra_column"]
            out.append((c, "columns", len(c) - 1))
            break
    for t in traces:
        idx = [i for i, e in enumerate(t) if e["ok"] and e["kind"] == "ExtendNode" and e["out_rows"] >= 0 and min(e["in_rows"] + [0]) >= 0]
        if idx:
            c = json.loads(json.dumps(t))
            c[idx[0]]["out_rows"] = c[idx[0]]["out_rows"] + 1
            out.append((c, "rows", idx[0]))
            break
    return out


def run(prop, vd, stats, tr, prefix, tier, laws=("columns", "rows", "walk")):
    """validate the traces recorded under `prefix` plus traces of the repository's tests; returns extra coverage"""
    stop()
    quick = tier == "quick"
    own = read_traces(prefix, limit=(4000 if quick else 40000))
    repo, ntests = repo_test_traces()
    out = {"executor_traces_from_replay": len(own), "executor_traces_from_repo_tests": len(repo), "repo_test_files_run": ntests,
           "executor_events": sum(len(t) for t in own) + sum(len(t) for t in repo),
           "executor_traces_polars": sum(1 for t in own + repo if t[-1]["backend"] == "polars")}
    for name, traces in (("replayed behaviours", own), ("repository tests", repo)):
        rej = validate(traces, tr, "step events of %d Pandas / Polars evaluations (%s) validated by Trace_ExecSteps" % (len(traces), name))
        # binding self-test: corrupted copies of ACCEPTED traces (one more column than declared; one row too many after
        # an extend) must be rejected at the corrupted event
        controls = _corrupted([t for i, t in enumerate(traces) if i not in rej])
        if controls:
            crej = validate([c[0] for c in controls], tr, "corrupted copies of accepted traces (%s) must be rejected" % name)
            for k, (ct, law, idx) in enumerate(controls):
                if crej.get(k) != (law, idx):
                    raise common.MachineryError("Trace_ExecSteps did not reject a corrupted trace (%s at event %d): %r" % (law, idx, crej.get(k)))
                stats["trace:corrupted_control_rejected"] += 1
        for ti, (law, idx) in sorted(rej.items()):
            # laws: "columns" | "walk" | "rows" (every node kind) | "rows:<NodeKind>" (the row law of that kind only)
            if law not in laws and ("%s:%s" % (law, traces[ti][idx]["kind"])) not in laws:
                stats["trace_rejections_for_other_properties"] += 1
                continue
            fid = classify(traces[ti], law, idx)
            if fid and vd.is_known(fid):
                vd.note_known(fid)
                stats["trace:KF:" + fid] += 1
                continue
            stats["trace:rejected"] += 1
            stats["trace:rejected:%s" % traces[ti][idx]["backend"]] += 1
            vd.violation({"kind": "executor-trace", "source": name, "law": law, "event_index": idx, "event": traces[ti][idx],
                          "trace": traces[ti]}, tag="trace:%s:%s" % (law, traces[ti][idx]["kind"]))
        stats["trace:accepted"] += len(traces) - len(rej)
    return out


def read_sqlgen_traces(prefix, limit=None, rng=None):
    """events of the WITH-sequencing machine, grouped per statement (per CTE cache); cache-less events are traces of one"""
    seen, out = set(), []
    for fn in sorted(glob.glob(prefix + ".*")):
        groups = {}
        order = []
        with open(fn) as f:
            for line in f:
                try:
                    ev = json.loads(line)
                except ValueError:
                    continue
                if "sqlgen" not in ev:
                    continue
                if ev["cache"] == 0:
                    order.append([ev])
                else:
                    k = ev["cache"]
                    if k not in groups:
                        groups[k] = []
                        order.append(groups[k])
                    groups[k].append(ev)
        for tr_ in order:
            key = hashlib.sha1(json.dumps([{k: v for k, v in e.items() if k not in ("seq", "cache")} for e in tr_], sort_keys=True).encode()).hexdigest()
            if key not in seen:
                seen.add(key)
                out.append(tr_)
    if limit and len(out) > limit:
        out = (rng or random.Random(common.seed())).sample(out, limit)
    return out


def validate_sqlgen(traces, tr, what):
    if not traces:
        return {}
    sc = common.spec_copy()
    path = os.path.join(sc, "sqlgen_traces_%d.json" % len(tr.runs))
    with open(path, "w") as f:
        json.dump(traces, f)
    cfg = os.path.join(sc, "sqlgen_traces_%d.cfg" % len(tr.runs))
    common.write_cfg(cfg, spec="TSpec", constants={})
    res = common.run_tlc(os.path.join(sc, "Trace_SqlGen.tla"), cfg, workers=16, timeout=900, cwd=sc, env={"TRACE_FILE": path})
    common.tlc_or_die(res, what)
    tr.add(what, res)
    rej, acc = {}, 0
    for ln in res.lines:
        m = re.match(r"^REJ (\S+) (\d+) (\d+)$", ln)
        if m:
            rej[int(m.group(2)) - 1] = (m.group(1), int(m.group(3)) - 1)
        elif ln.startswith("ACC "):
            acc += 1
    if acc + len(rej) != len(traces):
        raise common.MachineryError("%s: %d traces but %d accepted + %d rejected" % (what, len(traces), acc, len(rej)))
    return rej


def start_merge(tag="merge"):
    prefix = os.path.join(common.scratch(), "%s_mergetrace" % tag)
    os.environ["DATA_ALGEBRA_VERIF_TRACE_MERGE"] = prefix
    return prefix


def run_merge(prop, vd, stats, tr, prefix, tier):
    """validate the SQL extend-merge decisions recorded under `prefix` (spec/Trace_SqlMerge.tla)"""
    os.environ.pop("DATA_ALGEBRA_VERIF_TRACE_MERGE", None)
    seen, events = set(), []
    for fn in sorted(glob.glob(prefix + ".*")):
        with open(fn) as f:
            for line in f:
                try:
                    ev = json.loads(line)
                except ValueError:
                    continue
                ev.pop("seq", None)
                key = json.dumps(ev, sort_keys=True)
                if key not in seen:
                    seen.add(key)
                    events.append(ev)
    limit = 6000 if tier == "quick" else 40000
    if len(events) > limit:
        events = random.Random(common.seed()).sample(events, limit)
    out = {"sql_merge_decisions_validated": len(events), "sql_merges_taken": sum(1 for e in events if e["sqlmerge"])}
    if not events:
        return out
    sc = common.spec_copy()
    path = os.path.join(sc, "merge_events_%d.json" % len(tr.runs))
    with open(path, "w") as f:
        json.dump(events, f)
    cfg = os.path.join(sc, "merge_events_%d.cfg" % len(tr.runs))
    common.write_cfg(cfg, spec="TSpec", constants={})
    res = common.run_tlc(os.path.join(sc, "Trace_SqlMerge.tla"), cfg, workers=16, timeout=900, cwd=sc, env={"TRACE_FILE": path})
    common.tlc_or_die(res, "merge decisions")
    tr.add("%d SQL extend-merge decisions (%d merges) judged by Trace_SqlMerge: DeclaredCoversText, MergeSoundHere" %
           (len(events), out["sql_merges_taken"]), res)
    judged = 0
    for ln in res.lines:
        m = re.match(r"^(ACC|DRIFT \S+|REJ \S+) (\d+)$", ln)
        if not m:
            continue
        judged += 1
        v, i = m.group(1), int(m.group(2)) - 1
        if v == "ACC":
            stats["merge:accepted"] += 1
        elif v.startswith("DRIFT"):
            stats["merge:model_drift_rule"] += 1
        else:
            stats["merge:rejected"] += 1
            vd.violation({"kind": "sql-merge-decision", "law": v[4:], "event": events[i]}, tag="merge:" + v[4:])
    if judged != len(events):
        raise common.MachineryError("Trace_SqlMerge judged %d of %d events" % (judged, len(events)))
    return out
