"""C21: solution helpers compute what their documentation promises (spec/Solutions.tla)."""
import collections
import json
import math
import multiprocessing
import os
import sys
import time
import traceback
import warnings

warnings.filterwarnings("ignore")

from . import common
from . import relchecks as rc
from .sm_props import parse_hist_cases, run_sm

if common.REPO not in sys.path:
    sys.path.insert(0, common.REPO)
os.environ.setdefault("DATA_ALGEBRA_VERIF", "1")

NULL = "NULL"
MAPPING = {0: 5, 1: 7}


def _frame(case):
    import numpy
    import pandas
    rows = case["rows"]
    return pandas.DataFrame({
        "rid": [float(i + 1) for i in range(len(rows))],
        "g": ["g%d" % r["g"] for r in rows],
        "o": [float(r["o"]) for r in rows],
        "v": [numpy.nan if r["v"] == NULL else float(r["v"]) for r in rows],
        "n": [int(r["n"]) for r in rows],
        "m": ["m%d" % r["m"] for r in rows],
        "m2": ["m%d" % r["m"] for r in rows],
    })


def _num(v):
    if v is None:
        return None
    try:
        if isinstance(v, float) and math.isnan(v):
            return None
    except TypeError:
        pass
    return v


def _by_rid(df, col):
    return {float(r): _num(v) for r, v in zip(df["rid"].tolist(), df[col].tolist())}


def w_c21(case):
    try:
        return _w_c21(case)
    except Exception:  # noqa: BLE001
        return {"status": "crash", "detail": traceback.format_exc()[-1500:]}


def _w_c21(case):
    import pandas
    import data_algebra.solutions as sol
    import data_algebra.SQLite
    from data_algebra.data_ops import describe_table
    d = _frame(case)
    n = d.shape[0]
    td = describe_table(d, table_name="d")
    h = data_algebra.SQLite.example_handle()
    stats = collections.Counter()

    def bad(tag, why, **kw):
        dd = {"why": why}
        dd.update({k: str(v)[:500] for k, v in kw.items()})
        return {"status": "violation", "tag": tag, "detail": dd}

    def both(ops, tables):
        out = {}
        out["pandas"] = ops.eval(tables)
        for k, v in tables.items():
            h.insert_table(v, table_name=k, allow_overwrite=True)
        out["sqlite"] = h.read_query(ops)
        return out
    try:
        # rank_to_average
        if case["no_null_v"] and n > 0:
            ops = sol.rank_to_average(td, order_by=["v"], partition_by=["g"], rank_column_name="r")
            for b, res in both(ops, {"d": d}).items():
                got = _by_rid(res, "r")
                want = {float(i + 1): case["rank2"][i] / 2.0 for i in range(n)}
                stats["rank_checks"] += 1
                if res.shape[0] != n or any(got.get(k) is None or abs(got[k] - want[k]) > 1e-9 for k in want):
                    return bad("rank_to_average:" + b, "rank differs from the mean position of the tie group", got=got, want=want)
        # last_observed_carried_forward
        if case["total_o"] and n > 0:
            ops = sol.last_observed_carried_forward(td, order_by=["o"], partition_by=["g"], value_column_name="v")
            for b, res in both(ops, {"d": d}).items():
                got = _by_rid(res, "v")
                want = {float(i + 1): (None if case["locf"][i] == NULL else float(case["locf"][i])) for i in range(n)}
                stats["locf_checks"] += 1
                if res.shape[0] != n or got != want:
                    return bad("locf:" + b, "filled values differ from the latest earlier observation of the partition", got=got, want=want)
        # replicate_rows_query (max_count = the largest count present, and a roomier bound)
        if n > 0:
            mx = int(d["n"].max())
            for max_count in sorted({mx, mx + 1, 4}):
                ops, jt = sol.replicate_rows_query(td, count_column_name="n", seq_column_name="i", join_temp_name="jt", max_count=max_count)
                for b, res in both(ops, {"d": d, "jt": jt}).items():
                    got = sorted((float(r), int(i)) for r, i in zip(res["rid"].tolist(), res["i"].tolist()))
                    want = sorted((float(x["src"]), int(x["seq"])) for x in case["rep"])
                    stats["replicate_checks"] += 1
                    if got != want:
                        return bad("replicate:" + b, "rows are not replicated count times numbered 0..count-1 (max_count=%d)" % max_count,
                                   got=got, want=want)
        # def_multi_column_map
        if n > 0:
            mt = pandas.DataFrame({"column_name": ["m", "m", "m2", "m2"], "column_value": ["m0", "m1", "m0", "m1"],
                                   "mapped_value": [5.0, 7.0, 5.0, 7.0]})
            ops = sol.def_multi_column_map(td, mapping_table=describe_table(mt, table_name="mt"), row_keys=["rid"], cols_to_map=["m", "m2"])
            for b, res in both(ops, {"d": d, "mt": mt}).items():
                want = {float(i + 1): (None if case["mapped"][i] == NULL else float(case["mapped"][i])) for i in range(n)}
                stats["map_checks"] += 1
                for col in ("m", "m2"):
                    got = _by_rid(res, col)
                    if res.shape[0] != n or got != want:
                        return bad("multi_column_map:" + b, "column %s is not mapped through the mapping table" % col, got=got, want=want)
    finally:
        h.close()
    return {"status": "ok", "stats": dict(stats), "nontrivial": n >= 2}


def check_C21(tier, replay=None):
    t0 = time.time()
    vd = common.Verdicts("C21")
    tr = rc.TlcRun()
    stats = collections.Counter()
    if replay:
        rec = json.load(open(replay))
        out = w_c21(rec["case"])
        print(json.dumps(out, indent=1, default=str)[:4000])
        return 1 if out["status"] != "ok" else 0
    quick = tier == "quick"
    base = {"NULL": "= NULL", "MaxCount": "= 2", "GVals": "<- MC_G", "OVals": "<- MC_O", "VVals": "<- MC_V", "MVals": "<- MC_M",
            "Mapping": "<- MC_Mapping"}
    laws = ["RankLaw", "LocfLaw", "RepLaw"]
    lines = []
    plans = [(1, 1, "MaxCount = 2"), (2, 1 if not quick else 4, "MaxCount = 2"), (3, 400 if quick else 40, "MaxCount = 2")]
    for nrows, one_in, _ in plans:
        r = run_sm("MC_Solutions", dict(base, MaxRows="= %d" % nrows, EmitOneIn="= %d" % one_in), invariants=laws, emit="Emit", tr=tr,
                   what="all tables of %d rows (2 partitions, 3 order values, values {missing,1,2}, counts 1..2, 3 codes): RankLaw, LocfLaw, "
                        "RepLaw; one in %d replayed" % (nrows, one_in))
        if r.violated:
            rc.law_violation(vd, r, "Solutions laws")
        lines += r.lines
    r = run_sm("MC_Solutions", dict(base, MaxRows="= 4", MaxCount="= 4", GVals="<- MC_G", EmitOneIn="= 1"), invariants=laws, emit="Emit", tr=tr,
               simulate={"num": 600 if quick else 6000, "seed": common.seed()}, depth=6,
               what="simulated tables of 4 rows with counts 1..4")
    lines += r.lines
    cases = parse_hist_cases(lines, limit=(2500 if quick else 40000))
    nontriv = 0
    ctx = multiprocessing.get_context("fork")
    with ctx.Pool(16) as pool:
        for case, out in zip(cases, pool.imap(w_c21, cases, chunksize=8)):
            stats["cases"] += 1
            stats[out["status"]] += 1
            for k, v in out.get("stats", {}).items():
                stats[k] += v
            if out.get("nontrivial"):
                nontriv += 1
            if out["status"] == "crash":
                raise common.MachineryError("worker crashed: " + out["detail"])
            if out["status"] == "violation":
                vd.violation({"kind": "C21", "case": case, "detail": out["detail"]}, tag=out["tag"])
    cov = {"states": tr.states, "transitions": tr.transitions, "traces_validated_against_impl": stats["cases"],
           "samples": [{"rows": c["rows"], "rank2": c["rank2"], "locf": c["locf"], "rep": c["rep"], "mapped": c["mapped"]} for c in cases[-2:]],
           "evaluations": stats["cases"], "distinct_nontrivial": nontriv,
           "rule": "tables enumerated / simulated by TLC with the documented result of each helper; the real helper pipelines are "
                   "evaluated on Pandas and SQLite; non-trivial = at least two rows", "tlc_runs": tr.runs, "outcomes": dict(stats),
           "exhaustive": False}
    common.write_evidence("C21", tier, "model_checking", cov, time.time() - t0, len(vd.violations),
                          assumptions=["rank_to_average is checked on tables without missing values, last_observed_carried_forward on tables "
                                       "whose order column is total within each partition (what 'valid input' means for them)",
                                       "xicor_query / braid_data are not named by the property and are not checked"])
    return vd.report()


CHECKS = {"C21": check_C21}
