"""Matching observed divergences against /verif/known_findings.json (never written at run time)."""
import re


def _step(case, i):
    return case["prog"][i]


def join_full_not_same_named(case, i, detail=None):
    st = _step(case, i)
    return st[0] in ("join", "joinc") and st[1] == "FULL" and (len(st[2]) == 0 or any(p[0] != p[1] for p in st[2]))


def join_has_differently_named_keys(case, i, detail=None):
    st = _step(case, i)
    return st[0] in ("join", "joinc") and any(p[0] != p[1] for p in st[2])


def right_join_differently_named_keys(case, i, detail=None):
    st = _step(case, i)
    return st[0] in ("join", "joinc") and st[1] == "RIGHT" and any(p[0] != p[1] for p in st[2])


def stack_tops(case, upto):
    """spec tables on the pipeline stack BEFORE step `upto` (reconstructed from the recorded tops)"""
    stack = [case["inp"]["t1"]]
    for j in range(upto):
        st, h = case["prog"][j], case["hist"][j]
        if not h["ok"]:
            continue
        if st[0] in ("table", "dup"):
            stack = stack + [h["top"]]
        elif st[0] == "swap":
            stack = stack[:-2] + [stack[-1], stack[-2]]
        elif st[0] in ("join", "joinc", "concat"):
            stack = stack[:-2] + [h["top"]]
        else:
            stack = stack[:-1] + [h["top"]]
    return stack


def join_with_empty_side(case, i, detail=None):
    st = _step(case, i)
    if st[0] not in ("join", "joinc"):
        return False
    stk = stack_tops(case, i)
    return len(stk) >= 2 and (len(stk[-1]["rows"]) == 0 or len(stk[-2]["rows"]) == 0)


def _find_pow(e):
    if not isinstance(e, list):
        return []
    out = []
    if len(e) >= 4 and e[0] == "b" and e[1] == "**":
        out.append(e)
    for x in e:
        if isinstance(x, list):
            out += _find_pow(x)
    return out


def pow_identity_with_null(case, i, detail=None):
    """numpy conventions 1 ** nan = 1 and nan ** 0 = 1: the step contains a power and some input cell is null"""
    st = _step(case, i)
    if st[0] != "extend" or not any(_find_pow(a[1]) for a in st[1]):
        return False
    pre = stack_tops(case, i)[-1]
    return any(v == "NULL" for r in pre["rows"] for v in r.values())


def _find_tag(e, tag, op=None):
    if not isinstance(e, list):
        return []
    out = []
    if len(e) >= 2 and e[0] == tag and (op is None or e[1] == op):
        out.append(e)
    for x in e:
        if isinstance(x, list):
            out += _find_tag(x, tag, op)
    return out


def _cols_of(e):
    if not isinstance(e, list):
        return set()
    if len(e) == 2 and e[0] == "c":
        return {e[1]}
    out = set()
    for x in e:
        out |= _cols_of(x)
    return out


def as_int64_of_null(case, i, detail=None):
    """the step casts an expression to int64 and a column that expression reads holds a null"""
    st = _step(case, i)
    if st[0] != "extend":
        return False
    hits = [h for a in st[1] for h in _find_tag(a[1], "uq", "as_int64")]
    if not hits:
        return False
    pre = stack_tops(case, i)[-1]
    cols = set().union(*[_cols_of(h) for h in hits])
    return any(r.get(c) == "NULL" for r in pre["rows"] for c in cols)


def trim_of_concat(case, i, detail=None):
    """the step slices (trimstr) the result of a concat"""
    st = _step(case, i)
    if st[0] != "extend":
        return False
    return any(isinstance(h[1], list) and len(h[1]) > 0 and h[1][0] == "cat" for a in st[1] for h in _find_tag(a[1], "trim"))


PREDS = {f.__name__: f for f in (trim_of_concat, as_int64_of_null, pow_identity_with_null, join_full_not_same_named, join_has_differently_named_keys,
                                 right_join_differently_named_keys, join_with_empty_side)}


def classify(case, backend, verdict, findings, prop):
    """finding id explaining this verdict for this property, or None"""
    kind = verdict[0]
    bk = backend.split("/")[0]
    bk = "polars" if bk == "polars_lazy" else bk
    for f in findings.get("findings", []):
        if prop not in f.get("properties", []):
            continue
        fb = f.get("backend")
        if bk not in (fb if isinstance(fb, list) else [fb]):
            continue
        if kind == "known" and f["kind"] == "model" and f["id"] == verdict[1]:
            return f["id"]
        if kind == "raised" and f["kind"] == "raise":
            op = _step(case, verdict[1])[0]
            if op in f["step_ops"] and re.search(f["match"], verdict[2], re.S):
                if "pred" in f and not PREDS[f["pred"]](case, verdict[1]):
                    continue
                return f["id"]
        if kind == "diverge" and f["kind"] == "symptom":
            op = _step(case, verdict[1])[0]
            if op in f["step_ops"] and PREDS[f["pred"]](case, verdict[1], verdict[2]):
                return f["id"]
    return None
