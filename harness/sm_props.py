"""State-machine properties: C20 data spaces, C24 OrderedSet, C25 result cache, C23 connected
components, C22 schema decorators.  Each has a TLA+ machine under spec/, model-checked by TLC;
TLC-generated histories are replayed into the real objects (spec -> code) and histories recorded
from the real objects are validated by TLC against the same machine (code -> spec)."""
import collections
import hashlib
import json
import os
import random
import sys
import time
import warnings

warnings.filterwarnings("ignore")

from . import common

if common.REPO not in sys.path:
    sys.path.insert(0, common.REPO)
os.environ.setdefault("DATA_ALGEBRA_VERIF", "1")


def _consts(d):
    return {k: v for k, v in d.items()}


def run_sm(module, constants, *, invariants=(), properties=(), simulate=None, depth=20, workers=16, timeout=900,
           emit=None, deadlock=False, what="", tr=None, continue_=False, env=None, constraint=None):
    sc = common.spec_copy()
    cfg = os.path.join(sc, "sm_%s_%d.cfg" % (module, len(tr.runs) if tr else 0))
    inv = list(invariants) + ([emit] if emit else [])
    common.write_cfg(cfg, constants=constants, invariants=inv, properties=properties, deadlock=deadlock,
                     constraint=constraint)
    res = common.run_tlc(os.path.join(sc, module + ".tla"), cfg, workers=(1 if simulate else workers),
                         simulate=simulate, depth=depth, timeout=timeout, cwd=sc, continue_=continue_, env=env)
    common.tlc_or_die(res, what or module)
    if tr is not None:
        tr.add(what or module, res)
    return res


class TlcRun:
    def __init__(self):
        self.states = 0
        self.transitions = 0
        self.runs = []

    def add(self, what, res):
        self.states += res.states
        self.transitions += res.transitions
        self.runs.append({"what": what, "states": res.states, "transitions": res.transitions, "depth": res.depth,
                          "wall_s": round(res.wall, 1), "violated": res.violated})


def parse_hist_cases(lines, limit=None, rng=None):
    seen = set()
    out = []
    for s in lines:
        if not s.startswith("CASE "):
            continue
        h = hashlib.sha1(s.encode()).hexdigest()
        if h in seen:
            continue
        seen.add(h)
        out.append(json.loads(s[5:]))
    if limit and len(out) > limit:
        rng = rng or random.Random(common.seed())
        out = rng.sample(out, limit)
    return out


# =============================================================================================
# C20 data spaces
# =============================================================================================
def _ds_imports():
    import pandas
    import data_algebra
    import data_algebra.data_model_space
    import data_algebra.db_space
    import data_algebra.SQLite
    from data_algebra.data_ops import TableDescription
    return pandas, data_algebra, TableDescription


def ds_pipe(p, TableDescription):
    def td(k):
        return TableDescription(table_name=k, column_names=["x"])
    if p[0] == "copy":
        return td(p[1])
    if p[0] == "inc":
        return td(p[1]).extend({"x": "x + 1"})
    if p[0] == "cat":
        return td(p[1]).concat_rows(b=td(p[2]), id_column=None)
    raise ValueError(p)


def ds_observe(space):
    keys = sorted(space.keys())
    tables = {}
    for k in keys:
        d = space.retrieve(k)
        tables[k] = sorted(float(v) for v in d["x"].tolist())
    return {"keys": keys, "tables": tables}


def ds_apply(space, call, pandas, TableDescription):
    """apply one spec call to a real data space; returns (ok, returned key or value)"""
    op = call[0]
    try:
        if op == "insert":
            k = None if call[1] == "NONE" else call[1]
            df = pandas.DataFrame({"x": [float(v) for v in call[2]]})
            r = space.insert(key=k, value=df, allow_overwrite=call[3])
            return True, r.table_name
        if op == "execute":
            k = None if call[2] == "NONE" else call[2]
            r = space.execute(ds_pipe(call[1], TableDescription), key=k, allow_overwrite=call[3])
            return True, r.table_name
        if op == "remove":
            space.remove(call[1])
            return True, None
        if op == "retrieve":
            d = space.retrieve(call[1])
            return True, sorted(float(v) for v in d["x"].tolist())
    except Exception as ex:  # noqa: BLE001
        return False, "%s: %s" % (type(ex).__name__, str(ex)[:120])
    raise ValueError(op)


def ds_expected_obs(obs):
    tables = obs["tables"] if isinstance(obs["tables"], dict) else {}
    return {"keys": sorted(obs["keys"]), "tables": {k: sorted(float(v) for v in tables[k]) for k in sorted(tables)}}


def ds_replay_case(args):
    """replay one TLC history on both kinds of data space; expectations per kind:
    hist = reference, alt[kind] = what the known deviations of that kind predict"""
    case, kinds = args
    pandas, data_algebra, TableDescription = _ds_imports()
    out = {}
    for kind in kinds:
        if kind == "frames":
            space = data_algebra.data_model_space.DataModelSpace()
        else:
            space = data_algebra.db_space.DBSpace()
        verdict = ("ok",)
        hist = case["hist"]
        for i, ev in enumerate(hist):
            ok, ret = ds_apply(space, ev["call"], pandas, TableDescription)
            obs = ds_observe(space)
            exp = ds_expected_obs(ev["obs"])
            good = (ok == ev["ok"]) and obs == exp
            if good and ev["call"][0] in ("insert", "execute") and ok:
                # a named key must be the key returned; an automatic key must be the (new) key the spec chose
                # only up to "is a key that was free before" - compare with the spec's observation instead
                good = ret in obs["keys"]
            if good and ev["call"][0] == "retrieve" and ok:
                good = ret == sorted(float(v) for v in ev["ret"])
            if not good:
                verdict = ("diverge", i, {"call": ev["call"], "got_ok": ok, "got_ret": ret, "got_obs": obs,
                                          "exp_ok": ev["ok"], "exp_obs": exp})
                break
        try:
            space.close()
        except Exception:  # noqa: BLE001
            pass
        out[kind] = verdict
    return out


def ds_is_drop_before_eval(case, v):
    """is this divergence exactly the known DBSpace defect (D19)?  execute into an existing key k with
    allow_overwrite=True whose pipeline reads k (or cannot be evaluated): the code removes k first, so
    the call fails and k is gone (or the pipeline no longer sees k)"""
    i = v[1]
    ev = case["hist"][i]
    call = ev["call"]
    if call[0] != "execute" or call[2] == "NONE" or not call[3]:
        return False
    k = call[2]
    before = ds_expected_obs(case["hist"][i - 1]["obs"]) if i > 0 else {"keys": [], "tables": {}}
    if k not in before["keys"]:
        return False
    d = v[2]
    after_drop = {"keys": [x for x in before["keys"] if x != k],
                  "tables": {x: t for x, t in before["tables"].items() if x != k}}
    return (not d["got_ok"]) and d["got_obs"] == after_drop


DS_ASSUME = [
    "table values are abstracted to the multiset of cells of one numeric column; pipelines executed in a space are copy, "
    "x+1 and concat_rows over stored tables",
    "DBSpace runs on an in-memory SQLite database",
    "the name of an automatic key is not fixed by the property: the replay only requires that a fresh key appears",
]


def ds_constants(keys, maxops, dev, keep):
    return {"NONE": "= NONE", "Keys": "<- " + keys, "Vals": "<- MC_Vals", "MaxOps": "= %d" % maxops,
            "Dev": "<- " + dev, "KeepHist": "= " + ("TRUE" if keep else "FALSE"), "MaxLen": "= 3"}


DS_INV = ["TypeOK", "AutoNeverReplaces", "NoOverwriteWhenDisallowed", "FailureAtomic", "WriteIsLocal", "RemoveIsLocal"]


def check_C20(tier, replay=None):
    import multiprocessing
    t0 = time.time()
    vd = common.Verdicts("C20")
    tr = TlcRun()
    stats = collections.Counter()
    if replay:
        rec = json.load(open(replay))
        out = ds_replay_case((rec["case"], [rec["kind_of_space"]]))
        print(json.dumps(out, indent=1, default=str))
        return 1 if any(v[0] != "ok" for v in out.values()) else 0
    quick = tier == "quick"
    # (1) design level: the reference machine satisfies the C20 properties for all histories in bounds
    res = run_sm("MC_DataSpace", ds_constants("MC_Keys2" if quick else "MC_Keys", 4, "NoDev", False), invariants=DS_INV, tr=tr,
                 what="reference machine, keys %s, histories <= 4 calls" % ("{a, da_temp_1}" if quick else "{a, da_temp_1, da_temp_2}"))
    if res.violated:
        vd.violation({"kind": "tlc-law", "what": "DataSpace reference", "violated": res.violated, "trace": res.trace[:300]})
    # each known deviation really breaks a property on the model (non-vacuity of the deviation models)
    for dev, expect in (("DevDb", "FailureAtomic"),):
        r = run_sm("MC_DataSpace", ds_constants("MC_Keys2", 3, dev, False), invariants=DS_INV, tr=tr,
                   what="deviation model %s must violate %s" % (dev, expect))
        stats["deviation_%s_violates" % dev] = r.violated or "nothing"
        if not r.violated:
            raise common.MachineryError("deviation model %s does not violate any C20 property" % dev)
    # (2) spec -> code: histories generated by TLC, with the observation after every call
    lines = []
    r = run_sm("MC_DataSpace", ds_constants("MC_Keys2", 2 if quick else 3, "NoDev", True), emit="Emit", tr=tr,
               what="all histories of %d calls" % (2 if quick else 3))
    lines += r.lines
    r = run_sm("MC_DataSpace", ds_constants("MC_Keys", 6, "NoDev", True), emit="Emit", tr=tr,
               simulate={"num": 1500 if quick else 20000, "seed": common.seed()}, depth=8,
               what="simulated histories of 6 calls")
    lines += r.lines
    allc = parse_hist_cases(lines, limit=(2500 if quick else 40000))
    cases = {"frames": allc, "db": allc}
    # reference expectations for the db space too, to tell a known deviation from the reference
    ctx = multiprocessing.get_context("fork")
    samples = []
    with ctx.Pool(16) as pool:
        for kind in ("frames", "db"):
            cs = cases[kind]
            stats["histories_%s" % kind] = len(cs)
            for case, out in zip(cs, pool.imap(ds_replay_case, [(c, [kind]) for c in cs], chunksize=16)):
                v = out[kind]
                if v[0] == "diverge" and kind == "db" and ds_is_drop_before_eval(case, v):
                    stats["db:KF:dbspace_drop_before_eval"] += 1
                    if vd.is_known("dbspace_drop_before_eval"):
                        vd.note_known("dbspace_drop_before_eval")
                        continue
                stats["%s:%s" % (kind, v[0])] += 1
                if v[0] != "ok":
                    vd.violation({"kind": "history", "kind_of_space": kind, "case": case, "verdict": v})
            samples += [{"space": kind, "history": [[e["call"], e["ok"]] for e in c["hist"]]} for c in cs[:2]]
    nontriv = sum(1 for k in cases for c in cases[k] if sum(1 for e in c["hist"] if e["ok"] and e["call"][0] in ("insert", "execute")) >= 2)
    cov = {"states": tr.states, "transitions": tr.transitions,
           "traces_validated_against_impl": stats["histories_frames"] + stats["histories_db"],
           "samples": samples, "evaluations": stats["histories_frames"] + stats["histories_db"],
           "distinct_nontrivial": nontriv,
           "rule": "histories = behaviours of DataSpace.tla; non-trivial = at least two successful writes",
           "tlc_runs": tr.runs, "outcomes": {k: v for k, v in stats.items()}, "known_findings_seen": dict(vd.known)}
    common.write_evidence("C20", tier, "model_checking", cov, time.time() - t0, len(vd.violations), assumptions=DS_ASSUME)
    return vd.report()


# =============================================================================================
# C24 OrderedSet
# =============================================================================================
def os_apply(obj, call, mod):
    """apply one call of OrderedSet.tla to a real OrderedSet; returns event dict (code -> spec form)"""
    OrderedSet = mod.OrderedSet
    op = call[0]
    ev = {"call": call, "ok": True, "ret": "NONE", "rset": "NONE"}
    try:
        if op == "add":
            obj.add(call[1])
        elif op == "discard":
            obj.discard(call[1])
        elif op == "remove":
            obj.remove(call[1])
        elif op == "pop":
            ev["ret"] = obj.pop()
        elif op == "clear":
            obj.clear()
        elif op == "update":
            obj.update(list(call[1]))
        elif op == "ior":
            obj |= OrderedSet(call[1])
        elif op == "iand":
            obj &= OrderedSet(call[1])
        elif op == "isub":
            obj -= OrderedSet(call[1])
        elif op == "ixor":
            obj ^= OrderedSet(call[1])
        elif op == "union":
            ev["rset"] = list(obj.union(list(call[1])))
        elif op == "or":
            ev["rset"] = list(obj | OrderedSet(call[1]))
        elif op == "and":
            ev["rset"] = list(obj & OrderedSet(call[1]))
        elif op == "sub":
            ev["rset"] = list(obj - OrderedSet(call[1]))
        elif op == "xor":
            ev["rset"] = list(obj ^ OrderedSet(call[1]))
        elif op == "copy":
            c = obj.copy()
            assert c is not obj
            ev["rset"] = list(c)
        elif op == "contains":
            ev["ret"] = call[1] in obj
        elif op == "len":
            ev["ret"] = len(obj)
        elif op == "ordered_union":
            ev["rset"] = list(mod.ordered_union(list(call[1]), list(call[2])))
        elif op == "ordered_intersect":
            ev["rset"] = list(mod.ordered_intersect(list(call[1]), list(call[2])))
        elif op == "ordered_diff":
            ev["rset"] = list(mod.ordered_diff(list(call[1]), list(call[2])))
        else:
            raise ValueError(op)
    except (KeyError, StopIteration):
        ev["ok"] = False
    ev["after"] = list(obj)
    return ev, obj


def os_replay_case(case):
    import data_algebra.OrderedSet as mod
    obj = mod.OrderedSet()
    for i, e in enumerate(case["hist"]):
        ev, obj = os_apply(obj, e["call"], mod)
        good = ev["ok"] == e["ok"]
        if e["call"][0] == "pop" and e["ok"]:
            # the spec lets pop return any element; follow the element the code chose
            before = case["hist"][i - 1]["after"] if i > 0 else []
            good = good and ev["ret"] in before and ev["after"] == [x for x in before if x != ev["ret"]]
            if good and ev["after"] != e["after"]:
                return ("pop-choice", i)       # a different (legal) element: the rest of this history is another behaviour
        else:
            good = good and ev["after"] == e["after"]
            if e["call"][0] in ("contains", "len"):
                good = good and ev["ret"] == e["ret"]
            if e["rset"] != "NONE":
                if e["rord"]:
                    good = good and ev["rset"] == e["rset"]
                else:
                    good = good and sorted(ev["rset"]) == sorted(e["rset"]) and len(set(ev["rset"])) == len(ev["rset"])
        if not good:
            return ("diverge", i, {"expected": e, "got": ev})
    return ("ok",)


OS_OPS1 = ["add", "discard", "remove", "contains"]
OS_OPS0 = ["pop", "clear", "copy", "len"]
OS_OPSA = ["update", "ior", "iand", "isub", "ixor", "union", "or", "and", "sub", "xor"]
OS_OPSAB = ["ordered_union", "ordered_intersect", "ordered_diff"]


def os_record_traces(n, length, rng, universe=8):
    """random histories on the real OrderedSet (larger universe, longer than the MC bounds), logged
    after every call: the code -> spec direction"""
    import data_algebra.OrderedSet as mod
    traces = []
    for _ in range(n):
        obj = mod.OrderedSet()
        tr = []
        for _ in range(length):
            k = rng.random()
            def arg():
                return [rng.randrange(1, universe + 1) for _ in range(rng.randrange(0, 5))]
            if k < 0.35:
                call = [rng.choice(OS_OPS1), rng.randrange(1, universe + 1)]
            elif k < 0.5:
                call = [rng.choice(OS_OPS0)]
            elif k < 0.9:
                call = [rng.choice(OS_OPSA), arg()]
            else:
                call = [rng.choice(OS_OPSAB), arg(), arg()]
            ev, obj = os_apply(obj, call, mod)
            tr.append(ev)
        traces.append(tr)
    return traces


def validate_traces(module, traces, tr, what, timeout=600):
    """run a Trace_*.tla spec over a batch of recorded traces; returns list of (tid, event index) rejected"""
    sc = common.spec_copy()
    path = os.path.join(sc, "traces_%s_%d.json" % (module, len(tr.runs)))
    with open(path, "w") as f:
        json.dump(traces, f)
    cfg = os.path.join(sc, "%s_%d.cfg" % (module, len(tr.runs)))
    common.write_cfg(cfg, spec="TSpec", constants={"NONE": "= NONE"}, invariants=["TNoDuplicates"] if module == "Trace_OrderedSet" else [])
    res = common.run_tlc(os.path.join(sc, module + ".tla"), cfg, workers=8, timeout=timeout, cwd=sc,
                         env={"TRACE_FILE": path})
    common.tlc_or_die(res, what)
    tr.add(what, res)
    rej = []
    acc = 0
    for ln in res.lines:
        if ln.startswith("REJ "):
            _, t, l = ln.split()
            rej.append((int(t), int(l)))
        elif ln.startswith("ACC "):
            acc += 1
    if acc + len(set(t for t, _ in rej)) != len(traces):
        raise common.MachineryError("%s: %d traces but %d accepted + %d rejected" % (what, len(traces), acc, len(rej)))
    if res.violated:
        raise common.MachineryError("%s: invariant %s violated while validating traces" % (what, res.violated))
    return rej


def check_C24(tier, replay=None):
    import multiprocessing
    t0 = time.time()
    vd = common.Verdicts("C24")
    tr = TlcRun()
    stats = collections.Counter()
    quick = tier == "quick"
    if replay:
        rec = json.load(open(replay))
        if "case" in rec:
            print(os_replay_case(rec["case"]))
        else:
            rej = validate_traces("Trace_OrderedSet", [rec["trace"]], tr, "replay")
            print("rejected at", rej)
        return 1
    consts = {"NONE": "= NONE", "Elems": "<- " + ("MC_Elems" if quick else "MC_Elems4"), "MaxOps": "= 3", "MaxArg": "= 2"}
    sc = common.spec_copy()
    # (1) design: the machine refines a plain set, keeps first-insertion order, helpers are ordered by first argument
    cfg = os.path.join(sc, "os_mc.cfg")
    common.write_cfg(cfg, constants=consts, invariants=["NoDuplicates", "SetRefinement", "OrderKept", "HelperOrder"], view="ViewS")
    res = common.run_tlc(os.path.join(sc, "MC_OrderedSet.tla"), cfg, workers=8, timeout=900, cwd=sc)
    common.tlc_or_die(res, "OrderedSet laws")
    tr.add("every call in every reachable state: refinement of a plain set, order kept, helper order", res)
    if res.violated:
        vd.violation({"kind": "tlc-law", "what": "OrderedSet", "violated": res.violated, "trace": res.trace[:200]})
    # (2) spec -> code: TLC histories replayed on the real class
    consts2 = dict(consts, Elems="<- MC_Elems", MaxOps="= 6")
    r = run_sm("MC_OrderedSet", consts2, emit="Emit", tr=tr, simulate={"num": 3000 if quick else 40000, "seed": common.seed()},
               depth=7, what="simulated histories of 6 calls over {1,2,3}")
    cases = parse_hist_cases(r.lines, limit=(6000 if quick else 80000))
    ctx = multiprocessing.get_context("fork")
    with ctx.Pool(16) as pool:
        for case, v in zip(cases, pool.imap(os_replay_case, cases, chunksize=64)):
            stats["replay:" + v[0]] += 1
            if v[0] == "diverge":
                vd.violation({"kind": "history", "case": case, "verdict": v})
    # (3) code -> spec: histories recorded from the real class, validated by TLC
    rng = random.Random(common.seed())
    traces = os_record_traces(400 if quick else 5000, 12, rng)
    rej = validate_traces("Trace_OrderedSet", traces, tr, "recorded histories (12 calls, 8 elements) validated by Trace_OrderedSet")
    stats["traces_recorded"] = len(traces)
    stats["traces_rejected"] = len(rej)
    for t, l in rej:
        vd.violation({"kind": "trace", "trace": traces[t - 1], "rejected_at_event": l})
    nontriv = sum(1 for c in cases if len(c["hist"][-1]["after"]) >= 2)
    cov = {"states": tr.states, "transitions": tr.transitions,
           "traces_validated_against_impl": len(cases) + len(traces),
           "samples": [{"history": [[e["call"], e["ok"], e["after"]] for e in c["hist"]]} for c in cases[:2]]
                      + [{"recorded": [[e["call"], e["ok"], e["after"]] for e in traces[0]]}],
           "evaluations": len(cases) + len(traces), "distinct_nontrivial": nontriv,
           "rule": "TLC histories over {1,2,3} replayed on the class + random recorded histories validated by TLC; "
                   "non-trivial = final set has at least two elements",
           "tlc_runs": tr.runs, "outcomes": dict(stats)}
    common.write_evidence("C24", tier, "model_checking", cov, time.time() - t0, len(vd.violations),
                          assumptions=["pop may return any element (the property does not say which); operators building new "
                                       "sets are compared as sets, union/difference/copy and the ordered_* helpers as sequences"])
    return vd.report()


CHECKS = {
    "C20": check_C20,
    "C24": check_C24,
}
