"""State-machine properties: C20 data spaces, C24 OrderedSet, C25 result cache, C23 connected
components, C22 schema decorators.  Each has a TLA+ machine under spec/, model-checked by TLC;
TLC-generated histories are replayed into the real objects (spec -> code) and histories recorded
from the real objects are validated by TLC against the same machine (code -> spec)."""
import collections
import hashlib
import json
import os
import random
import sys
import time
import warnings

warnings.filterwarnings("ignore")

from . import common

if common.REPO not in sys.path:
    sys.path.insert(0, common.REPO)
os.environ.setdefault("DATA_ALGEBRA_VERIF", "1")


def _consts(d):
    return {k: v for k, v in d.items()}


def run_sm(module, constants, *, invariants=(), properties=(), simulate=None, depth=20, workers=16, timeout=900,
           emit=None, deadlock=False, what="", tr=None, continue_=False, env=None, constraint=None):
    sc = common.spec_copy()
    cfg = os.path.join(sc, "sm_%s_%d.cfg" % (module, len(tr.runs) if tr else 0))
    inv = list(invariants) + ([emit] if emit else [])
    common.write_cfg(cfg, constants=constants, invariants=inv, properties=properties, deadlock=deadlock,
                     constraint=constraint)
    res = common.run_tlc(os.path.join(sc, module + ".tla"), cfg, workers=(1 if simulate else workers),
                         simulate=simulate, depth=depth, timeout=timeout, cwd=sc, continue_=continue_, env=env)
    common.tlc_or_die(res, what or module)
    if tr is not None:
        tr.add(what or module, res)
    return res


class TlcRun:
    def __init__(self):
        self.states = 0
        self.transitions = 0
        self.runs = []

    def add(self, what, res):
        self.states += res.states
        self.transitions += res.transitions
        self.runs.append({"what": what, "states": res.states, "transitions": res.transitions, "depth": res.depth,
                          "wall_s": round(res.wall, 1), "violated": res.violated})


def parse_hist_cases(lines, limit=None, rng=None):
    seen = set()
    out = []
    for s in lines:
        if not s.startswith("CASE "):
            continue
        h = hashlib.sha1(s.encode()).hexdigest()
        if h in seen:
            continue
        seen.add(h)
        out.append(json.loads(s[5:]))
    if limit and len(out) > limit:
        rng = rng or random.Random(common.seed())
        out = rng.sample(out, limit)
    return out


# =============================================================================================
# C20 data spaces
# =============================================================================================
def _ds_imports():
    import pandas
    import data_algebra
    import data_algebra.data_model_space
    import data_algebra.db_space
    import data_algebra.SQLite
    from data_algebra.data_ops import TableDescription
    return pandas, data_algebra, TableDescription


def ds_pipe(p, space):
    """pipelines are built from the space's own table descriptions (describe), as a user would"""
    def td(k):
        return space.describe(k)
    if p[0] == "copy":
        return td(p[1])
    if p[0] == "inc":
        return td(p[1]).extend({"x": "x + 1"})
    if p[0] == "cat":
        return td(p[1]).concat_rows(b=td(p[2]), id_column=None)
    raise ValueError(p)


def _ds_tab(d):
    return {"cells": sorted(float(v) for v in d["x"].tolist()), "wide": "y" in list(d.columns)}


def ds_observe(space):
    keys = sorted(space.keys())
    tables = {}
    for k in keys:
        t = _ds_tab(space.retrieve(k))
        # the description of an entry must describe the entry
        t["described_wide"] = "y" in list(space.describe(k).column_names)
        tables[k] = t
    return {"keys": keys, "tables": tables}


def ds_apply(space, call, pandas, TableDescription):
    """apply one spec call to a real data space; returns (ok, returned key or value)"""
    op = call[0]
    try:
        if op == "insert":
            k = None if call[1] == "NONE" else call[1]
            cols = {"x": [float(v) for v in call[2]["cells"]]}
            if call[2]["wide"]:
                cols["y"] = [0.0] * len(cols["x"])
            df = pandas.DataFrame(cols)
            r = space.insert(key=k, value=df, allow_overwrite=call[3])
            return True, r.table_name
        if op == "execute":
            k = None if call[2] == "NONE" else call[2]
            r = space.execute(ds_pipe(call[1], space), key=k, allow_overwrite=call[3])
            return True, r.table_name
        if op == "remove":
            space.remove(call[1])
            return True, None
        if op == "retrieve":
            return True, _ds_tab(space.retrieve(call[1]))
    except Exception as ex:  # noqa: BLE001
        return False, "%s: %s" % (type(ex).__name__, str(ex)[:120])
    raise ValueError(op)


def _ds_exp_tab(t):
    return {"cells": sorted(float(v) for v in t["cells"]), "wide": bool(t["wide"]), "described_wide": bool(t["wide"])}


def ds_expected_obs(obs):
    tables = obs["tables"] if isinstance(obs["tables"], dict) else {}
    return {"keys": sorted(obs["keys"]), "tables": {k: _ds_exp_tab(tables[k]) for k in sorted(tables)}}


def ds_replay_case(args):
    """replay one TLC history on both kinds of data space; expectations per kind:
    hist = reference, alt[kind] = what the known deviations of that kind predict"""
    case, kinds = args
    pandas, data_algebra, TableDescription = _ds_imports()
    out = {}
    for kind in kinds:
        if kind == "frames":
            space = data_algebra.data_model_space.DataModelSpace()
        else:
            space = data_algebra.db_space.DBSpace()
        verdict = ("ok",)
        hist = case["hist"]
        for i, ev in enumerate(hist):
            ok, ret = ds_apply(space, ev["call"], pandas, TableDescription)
            obs = ds_observe(space)
            exp = ds_expected_obs(ev["obs"])
            good = (ok == ev["ok"]) and obs == exp
            if good and ev["call"][0] in ("insert", "execute") and ok:
                # a named key must be the key returned; an automatic key must be the (new) key the spec chose
                # only up to "is a key that was free before" - compare with the spec's observation instead
                good = ret in obs["keys"]
            if good and ev["call"][0] == "retrieve" and ok:
                e_ = _ds_exp_tab(ev["ret"])
                good = ret == {"cells": e_["cells"], "wide": e_["wide"]}
            if not good:
                verdict = ("diverge", i, {"call": ev["call"], "got_ok": ok, "got_ret": ret, "got_obs": obs,
                                          "exp_ok": ev["ok"], "exp_obs": exp})
                break
        try:
            space.close()
        except Exception:  # noqa: BLE001
            pass
        out[kind] = verdict
    return out


def ds_is_drop_before_eval(case, v):
    """is this divergence exactly the known DBSpace defect (D19)?  execute into an existing key k with
    allow_overwrite=True whose pipeline reads k (or cannot be evaluated): the code removes k first, so
    the call fails and k is gone (or the pipeline no longer sees k)"""
    i = v[1]
    ev = case["hist"][i]
    call = ev["call"]
    if call[0] != "execute" or call[2] == "NONE" or not call[3]:
        return False
    k = call[2]
    before = ds_expected_obs(case["hist"][i - 1]["obs"]) if i > 0 else {"keys": [], "tables": {}}
    if k not in before["keys"]:
        return False
    d = v[2]
    after_drop = {"keys": [x for x in before["keys"] if x != k],
                  "tables": {x: t for x, t in before["tables"].items() if x != k}}
    return (not d["got_ok"]) and d["got_obs"] == after_drop


DS_ASSUME = [
    "table values are abstracted to the multiset of cells of column x plus whether a second column y exists (two schemas); "
    "pipelines executed in a space are built from describe(k): copy, x+1 and concat_rows over stored tables",
    "DBSpace runs on an in-memory SQLite database",
    "the name of an automatic key is not fixed by the property: the replay only requires that a fresh key appears",
]


def ds_constants(keys, maxops, dev, keep):
    return {"NONE": "= NONE", "Keys": "<- " + keys, "Vals": "<- MC_Vals", "MaxOps": "= %d" % maxops,
            "Dev": "<- " + dev, "KeepHist": "= " + ("TRUE" if keep else "FALSE"), "MaxLen": "= 3"}


DS_INV = ["TypeOK", "AutoNeverReplaces", "NoOverwriteWhenDisallowed", "FailureAtomic", "WriteIsLocal", "RemoveIsLocal"]


def check_C20(tier, replay=None):
    import multiprocessing
    t0 = time.time()
    vd = common.Verdicts("C20")
    tr = TlcRun()
    stats = collections.Counter()
    if replay:
        rec = json.load(open(replay))
        out = ds_replay_case((rec["case"], [rec["kind_of_space"]]))
        print(json.dumps(out, indent=1, default=str))
        return 1 if any(v[0] != "ok" for v in out.values()) else 0
    quick = tier == "quick"
    # (1) design level: the reference machine satisfies the C20 properties for all histories in bounds
    res = run_sm("MC_DataSpace", ds_constants("MC_Keys2" if quick else "MC_Keys", 4, "NoDev", False), invariants=DS_INV, tr=tr,
                 what="reference machine, keys %s, histories <= 4 calls" % ("{a, da_temp_1}" if quick else "{a, da_temp_1, da_temp_2}"))
    if res.violated:
        vd.violation({"kind": "tlc-law", "what": "DataSpace reference", "violated": res.violated, "trace": res.trace[:300]})
    # each known deviation really breaks a property on the model (non-vacuity of the deviation models)
    for dev, expect in (("DevDb", "FailureAtomic"),):
        r = run_sm("MC_DataSpace", ds_constants("MC_Keys2", 3, dev, False), invariants=DS_INV, tr=tr,
                   what="deviation model %s must violate %s" % (dev, expect))
        stats["deviation_%s_violates" % dev] = r.violated or "nothing"
        if not r.violated:
            raise common.MachineryError("deviation model %s does not violate any C20 property" % dev)
    # (2) spec -> code: histories generated by TLC, with the observation after every call
    lines = []
    r = run_sm("MC_DataSpace", ds_constants("MC_Keys2", 2 if quick else 3, "NoDev", True), emit="Emit", tr=tr,
               what="all histories of %d calls" % (2 if quick else 3))
    lines += r.lines
    r = run_sm("MC_DataSpace", ds_constants("MC_Keys", 6, "NoDev", True), emit="Emit", tr=tr,
               simulate={"num": 1500 if quick else 20000, "seed": common.seed()}, depth=8,
               what="simulated histories of 6 calls")
    lines += r.lines
    allc = parse_hist_cases(lines, limit=(2500 if quick else 40000))
    cases = {"frames": allc, "db": allc}
    # reference expectations for the db space too, to tell a known deviation from the reference
    ctx = multiprocessing.get_context("fork")
    samples = []
    with ctx.Pool(16) as pool:
        for kind in ("frames", "db"):
            cs = cases[kind]
            stats["histories_%s" % kind] = len(cs)
            for case, out in zip(cs, pool.imap(ds_replay_case, [(c, [kind]) for c in cs], chunksize=16)):
                v = out[kind]
                if v[0] == "diverge" and kind == "db" and ds_is_drop_before_eval(case, v):
                    stats["db:KF:dbspace_drop_before_eval"] += 1
                    if vd.is_known("dbspace_drop_before_eval"):
                        vd.note_known("dbspace_drop_before_eval")
                        continue
                stats["%s:%s" % (kind, v[0])] += 1
                if v[0] != "ok":
                    vd.violation({"kind": "history", "kind_of_space": kind, "case": case, "verdict": v})
            samples += [{"space": kind, "history": [[e["call"], e["ok"]] for e in c["hist"]]} for c in cs[:2]]
    nontriv = sum(1 for k in cases for c in cases[k] if sum(1 for e in c["hist"] if e["ok"] and e["call"][0] in ("insert", "execute")) >= 2)
    cov = {"states": tr.states, "transitions": tr.transitions,
           "traces_validated_against_impl": stats["histories_frames"] + stats["histories_db"],
           "samples": samples, "evaluations": stats["histories_frames"] + stats["histories_db"],
           "distinct_nontrivial": nontriv,
           "rule": "histories = behaviours of DataSpace.tla; non-trivial = at least two successful writes",
           "tlc_runs": tr.runs, "outcomes": {k: v for k, v in stats.items()}, "known_findings_seen": dict(vd.known)}
    common.write_evidence("C20", tier, "model_checking", cov, time.time() - t0, len(vd.violations), assumptions=DS_ASSUME)
    return vd.report()


# =============================================================================================
# C24 OrderedSet
# =============================================================================================
def os_apply(obj, call, mod):
    """apply one call of OrderedSet.tla to a real OrderedSet; returns event dict (code -> spec form)"""
    OrderedSet = mod.OrderedSet
    op = call[0]
    ev = {"call": call, "ok": True, "ret": "NONE", "rset": "NONE"}
    try:
        if op == "add":
            obj.add(call[1])
        elif op == "discard":
            obj.discard(call[1])
        elif op == "remove":
            obj.remove(call[1])
        elif op == "pop":
            ev["ret"] = obj.pop()
        elif op == "clear":
            obj.clear()
        elif op == "update":
            obj.update(list(call[1]))
        elif op == "ior":
            obj |= OrderedSet(call[1])
        elif op == "iand":
            obj &= OrderedSet(call[1])
        elif op == "isub":
            obj -= OrderedSet(call[1])
        elif op == "ixor":
            obj ^= OrderedSet(call[1])
        elif op == "difference_update":
            obj.difference_update(OrderedSet(call[1]))
        elif op == "intersection_update":
            obj.intersection_update(OrderedSet(call[1]))
        elif op == "symmetric_difference_update":
            obj.symmetric_difference_update(OrderedSet(call[1]))
        elif op == "difference":
            ev["rset"] = list(obj.difference(OrderedSet(call[1])))
        elif op == "intersection":
            ev["rset"] = list(obj.intersection(OrderedSet(call[1])))
        elif op == "symmetric_difference":
            ev["rset"] = list(obj.symmetric_difference(OrderedSet(call[1])))
        elif op == "issubset":
            ev["ret"] = bool(obj.issubset(OrderedSet(call[1])))
        elif op == "issuperset":
            ev["ret"] = bool(obj.issuperset(OrderedSet(call[1])))
        elif op == "union":
            ev["rset"] = list(obj.union(list(call[1])))
        elif op == "or":
            ev["rset"] = list(obj | OrderedSet(call[1]))
        elif op == "and":
            ev["rset"] = list(obj & OrderedSet(call[1]))
        elif op == "sub":
            ev["rset"] = list(obj - OrderedSet(call[1]))
        elif op == "xor":
            ev["rset"] = list(obj ^ OrderedSet(call[1]))
        elif op == "copy":
            c = obj.copy()
            assert c is not obj
            ev["rset"] = list(c)
        elif op == "contains":
            ev["ret"] = call[1] in obj
        elif op == "len":
            ev["ret"] = len(obj)
        elif op == "ordered_union":
            ev["rset"] = list(mod.ordered_union(list(call[1]), list(call[2])))
        elif op == "ordered_intersect":
            ev["rset"] = list(mod.ordered_intersect(list(call[1]), list(call[2])))
        elif op == "ordered_diff":
            ev["rset"] = list(mod.ordered_diff(list(call[1]), list(call[2])))
        else:
            raise ValueError(op)
    except (KeyError, StopIteration):
        ev["ok"] = False
    ev["after"] = list(obj)
    return ev, obj


def os_replay_case(case):
    import data_algebra.OrderedSet as mod
    obj = mod.OrderedSet()
    for i, e in enumerate(case["hist"]):
        ev, obj = os_apply(obj, e["call"], mod)
        good = ev["ok"] == e["ok"]
        if e["call"][0] == "pop" and e["ok"]:
            # the spec lets pop return any element; follow the element the code chose
            before = case["hist"][i - 1]["after"] if i > 0 else []
            good = good and ev["ret"] in before and ev["after"] == [x for x in before if x != ev["ret"]]
            if good and ev["after"] != e["after"]:
                return ("pop-choice", i)       # a different (legal) element: the rest of this history is another behaviour
        else:
            good = good and ev["after"] == e["after"]
            if e["call"][0] in ("contains", "len", "issubset", "issuperset"):
                good = good and ev["ret"] == e["ret"]
            if e["rset"] != "NONE":
                if e["rord"]:
                    good = good and ev["rset"] == e["rset"]
                else:
                    good = good and sorted(ev["rset"]) == sorted(e["rset"]) and len(set(ev["rset"])) == len(ev["rset"])
        if not good:
            return ("diverge", i, {"expected": e, "got": ev})
    return ("ok",)


OS_OPS1 = ["add", "discard", "remove", "contains"]
OS_OPS0 = ["pop", "clear", "copy", "len"]
OS_OPSA = ["update", "ior", "iand", "isub", "ixor", "union", "or", "and", "sub", "xor", "difference_update", "intersection_update",
           "symmetric_difference_update", "difference", "intersection", "symmetric_difference", "issubset", "issuperset"]
OS_OPSAB = ["ordered_union", "ordered_intersect", "ordered_diff"]


def os_record_traces(n, length, rng, universe=8):
    """random histories on the real OrderedSet (larger universe, longer than the MC bounds), logged
    after every call: the code -> spec direction"""
    import data_algebra.OrderedSet as mod
    traces = []
    for _ in range(n):
        obj = mod.OrderedSet()
        tr = []
        for _ in range(length):
            k = rng.random()
            def arg():
                return [rng.randrange(1, universe + 1) for _ in range(rng.randrange(0, 5))]
            if k < 0.35:
                call = [rng.choice(OS_OPS1), rng.randrange(1, universe + 1)]
            elif k < 0.5:
                call = [rng.choice(OS_OPS0)]
            elif k < 0.9:
                call = [rng.choice(OS_OPSA), arg()]
            else:
                call = [rng.choice(OS_OPSAB), arg(), arg()]
            ev, obj = os_apply(obj, call, mod)
            tr.append(ev)
        traces.append(tr)
    return traces


def validate_traces(module, traces, tr, what, timeout=600):
    """run a Trace_*.tla spec over a batch of recorded traces; returns list of (tid, event index) rejected"""
    sc = common.spec_copy()
    path = os.path.join(sc, "traces_%s_%d.json" % (module, len(tr.runs)))
    with open(path, "w") as f:
        json.dump(traces, f)
    cfg = os.path.join(sc, "%s_%d.cfg" % (module, len(tr.runs)))
    common.write_cfg(cfg, spec="TSpec", constants={"NONE": "= NONE"}, invariants=["TNoDuplicates"] if module == "Trace_OrderedSet" else [])
    res = common.run_tlc(os.path.join(sc, module + ".tla"), cfg, workers=8, timeout=timeout, cwd=sc,
                         env={"TRACE_FILE": path})
    common.tlc_or_die(res, what)
    tr.add(what, res)
    rej = []
    acc = 0
    for ln in res.lines:
        if ln.startswith("REJ "):
            _, t, l = ln.split()
            rej.append((int(t), int(l)))
        elif ln.startswith("ACC "):
            acc += 1
    if acc + len(set(t for t, _ in rej)) != len(traces):
        raise common.MachineryError("%s: %d traces but %d accepted + %d rejected" % (what, len(traces), acc, len(rej)))
    if res.violated:
        raise common.MachineryError("%s: invariant %s violated while validating traces" % (what, res.violated))
    return rej


def apalache_inductive(module, vd):
    """IndInit /\\ Next => IndInv' (length 1) and Init => IndInv (length 0) with Apalache; 'unavailable' if the tool cannot run"""
    import shutil
    import subprocess
    import tempfile
    if shutil.which("apalache-mc") is None:
        return "unavailable"
    sc = common.spec_copy()
    out = tempfile.mkdtemp(prefix="apa_", dir=common.scratch())
    verdicts = []
    for init, length in (("IndInit", 1), ("Init", 0)):
        try:
            r = subprocess.run(["apalache-mc", "check", "--init=" + init, "--inv=IndInv", "--length=%d" % length, "--out-dir=" + out, module],
                               cwd=sc, stdout=subprocess.PIPE, stderr=subprocess.STDOUT, text=True, timeout=300)
        except subprocess.TimeoutExpired:
            return "timeout"
        if "EXITCODE: OK" in r.stdout:
            verdicts.append("ok")
        elif "EXITCODE: ERROR (12)" in r.stdout or "violat" in r.stdout:
            vd.violation({"kind": "tlc-law", "what": "Apalache: IndInv is not inductive (%s, length %d)" % (init, length), "violated": "IndInv",
                          "trace": r.stdout.splitlines()[-60:]})
            verdicts.append("violated")
        else:
            return "tool-error"
    return "proved" if verdicts == ["ok", "ok"] else ",".join(verdicts)


def check_C24(tier, replay=None):
    import multiprocessing
    t0 = time.time()
    vd = common.Verdicts("C24")
    tr = TlcRun()
    stats = collections.Counter()
    quick = tier == "quick"
    if replay:
        rec = json.load(open(replay))
        if "case" in rec:
            print(os_replay_case(rec["case"]))
        else:
            rej = validate_traces("Trace_OrderedSet", [rec["trace"]], tr, "replay")
            print("rejected at", rej)
        return 1
    consts = {"NONE": "= NONE", "Elems": "<- " + ("MC_Elems" if quick else "MC_Elems4"), "MaxOps": "= 3", "MaxArg": "= 2"}
    sc = common.spec_copy()
    # (1) design: the machine refines a plain set, keeps first-insertion order, helpers are ordered by first argument
    cfg = os.path.join(sc, "os_mc.cfg")
    common.write_cfg(cfg, constants=consts, invariants=["NoDuplicates", "SetRefinement", "OrderKept", "HelperOrder"], view="ViewS")
    res = common.run_tlc(os.path.join(sc, "MC_OrderedSet.tla"), cfg, workers=8, timeout=900, cwd=sc)
    common.tlc_or_die(res, "OrderedSet laws")
    tr.add("every call in every reachable state: refinement of a plain set, order kept, helper order", res)
    if res.violated:
        vd.violation({"kind": "tlc-law", "what": "OrderedSet", "violated": res.violated, "trace": res.trace[:200]})
    # (2) spec -> code: TLC histories replayed on the real class
    consts2 = dict(consts, Elems="<- MC_Elems", MaxOps="= 6")
    r = run_sm("MC_OrderedSet", consts2, emit="Emit", tr=tr, simulate={"num": 3000 if quick else 40000, "seed": common.seed()},
               depth=7, what="simulated histories of 6 calls over {1,2,3}")
    cases = parse_hist_cases(r.lines, limit=(6000 if quick else 80000))
    ctx = multiprocessing.get_context("fork")
    with ctx.Pool(16) as pool:
        for case, v in zip(cases, pool.imap(os_replay_case, cases, chunksize=64)):
            stats["replay:" + v[0]] += 1
            if v[0] == "diverge":
                vd.violation({"kind": "history", "case": case, "verdict": v})
    # (3) code -> spec: histories recorded from the real class, validated by TLC
    rng = random.Random(common.seed())
    traces = os_record_traces(400 if quick else 5000, 12, rng)
    rej = validate_traces("Trace_OrderedSet", traces, tr, "recorded histories (12 calls, 8 elements) validated by Trace_OrderedSet")
    stats["traces_recorded"] = len(traces)
    stats["traces_rejected"] = len(rej)
    for t, l in rej:
        vd.violation({"kind": "trace", "trace": traces[t - 1], "rejected_at_event": l})
    # (4) unbounded histories: NoDup is an inductive invariant of the machine (Apalache, symbolic)
    stats["apalache_inductive_invariant"] = apalache_inductive("OrderedSetInd.tla", vd)
    nontriv = sum(1 for c in cases if len(c["hist"][-1]["after"]) >= 2)
    cov = {"states": tr.states, "transitions": tr.transitions,
           "traces_validated_against_impl": len(cases) + len(traces),
           "samples": [{"history": [[e["call"], e["ok"], e["after"]] for e in c["hist"]]} for c in cases[:2]]
                      + [{"recorded": [[e["call"], e["ok"], e["after"]] for e in traces[0]]}],
           "evaluations": len(cases) + len(traces), "distinct_nontrivial": nontriv,
           "rule": "TLC histories over {1,2,3} replayed on the class + random recorded histories validated by TLC; "
                   "non-trivial = final set has at least two elements",
           "tlc_runs": tr.runs, "outcomes": dict(stats)}
    common.write_evidence("C24", tier, "model_checking", cov, time.time() - t0, len(vd.violations),
                          assumptions=["pop may return any element (the property does not say which); operators building new "
                                       "sets are compared as sets, union/difference/copy and the ordered_* helpers as sequences"])
    return vd.report()


# =============================================================================================
# C23 connected components
# =============================================================================================
def cc_vertex_maps():
    """order-preserving renderings of the abstract vertices 1..n as other hashable, ordered values"""
    return {
        "int": lambda v: v,
        "neg": lambda v: v - 10,
        "str": lambda v: "v%02d" % v,
        "float": lambda v: v / 2.0,
        "tuple": lambda v: (v // 3, v % 3),
    }


def cc_replay_case(case):
    import data_algebra.connected_components as ccm
    f, g, labels = case["f"], case["g"], case["labels"]
    for name, mp in cc_vertex_maps().items():
        try:
            got = ccm.connected_components([mp(v) for v in f], [mp(v) for v in g])
        except Exception as ex:  # noqa: BLE001
            return ("diverge", name, "raised %s: %s" % (type(ex).__name__, ex))
        if list(got) != [mp(v) for v in labels]:
            return ("diverge", name, {"got": list(got), "expected": [mp(v) for v in labels]})
    return ("ok",)


def cc_pandas_case(case):
    """the same through the Pandas expression path: f.co_equalizer(g)"""
    import pandas
    from data_algebra.data_ops import descr
    f, g, labels = case["f"], case["g"], case["labels"]
    if len(f) == 0:
        return ("ok",)
    d = pandas.DataFrame({"f": f, "g": g})
    try:
        res = descr(d=d).extend({"c": "f.co_equalizer(g)"}).transform(d)
    except Exception as ex:  # noqa: BLE001
        return ("diverge", "pandas", "raised %s: %s" % (type(ex).__name__, str(ex)[:200]))
    if [int(v) for v in res["c"].tolist()] != list(labels):
        return ("diverge", "pandas", {"got": res["c"].tolist(), "expected": labels})
    # columns of different dtypes: order-preserving rendering v -> v (even) | v + 0.5 (odd); usable when f holds even vertices only
    if all(v % 2 == 0 for v in f):
        mp = lambda v: float(v) if v % 2 == 0 else v + 0.5   # noqa: E731
        d2 = pandas.DataFrame({"f": pandas.Series([int(v) for v in f], dtype="int64"), "g": pandas.Series([mp(v) for v in g], dtype="float64")})
        try:
            res2 = descr(d=d2).extend({"c": "f.co_equalizer(g)"}).transform(d2)
        except Exception as ex:  # noqa: BLE001
            return ("diverge", "pandas/mixed-dtypes", "raised %s: %s" % (type(ex).__name__, str(ex)[:200]))
        if [float(v) for v in res2["c"].tolist()] != [mp(v) for v in labels]:
            return ("diverge", "pandas/mixed-dtypes", {"got": res2["c"].tolist(), "expected": [mp(v) for v in labels]})
    return ("ok",)


def cc_both(case):
    v = cc_replay_case(case)
    if v[0] != "ok":
        return v
    return cc_pandas_case(case)


def check_C23(tier, replay=None):
    import multiprocessing
    t0 = time.time()
    vd = common.Verdicts("C23")
    tr = TlcRun()
    stats = collections.Counter()
    quick = tier == "quick"
    if replay:
        rec = json.load(open(replay))
        print(cc_both(rec["case"]))
        return 1
    inv = ["Partition", "LoopInvariant", "Final"]
    # (1) design: the coded merging loop keeps its invariant and ends with the reference labelling
    r = run_sm("MC_ConnComp", {"V": "<- MC_V", "MaxEdges": "= %d" % (3 if quick else 4)}, invariants=inv, emit="Emit", tr=tr,
               what="all edge lists of <= %d edges over 4 vertices: loop invariant, final labelling" % (3 if quick else 4))
    if r.violated:
        vd.violation({"kind": "tlc-law", "what": "ConnComp", "violated": r.violated, "trace": r.trace[:200]})
    lines = list(r.lines)
    r = run_sm("MC_ConnComp", {"V": "<- MC_V7", "MaxEdges": "= 7"}, invariants=inv, emit="Emit", tr=tr,
               simulate={"num": 1500 if quick else 20000, "seed": common.seed()}, depth=17,
               what="simulated edge lists of <= 7 edges over 7 vertices")
    if r.violated:
        vd.violation({"kind": "tlc-law", "what": "ConnComp (simulation)", "violated": r.violated, "trace": r.trace[:200]})
    lines += r.lines
    cases = parse_hist_cases(lines, limit=(8000 if quick else 120000))
    ctx = multiprocessing.get_context("fork")
    with ctx.Pool(16) as pool:
        for case, v in zip(cases, pool.imap(cc_both, cases, chunksize=64)):
            stats["replay:" + v[0]] += 1
            if v[0] != "ok":
                vd.violation({"kind": "edges", "case": case, "verdict": v})
    nontriv = sum(1 for c in cases if len(set(c["labels"])) < len(set(c["f"]) | set(c["g"])) and len(c["f"]) >= 2)
    cov = {"states": tr.states, "transitions": tr.transitions, "traces_validated_against_impl": len(cases),
           "samples": cases[-3:], "evaluations": len(cases) * (len(cc_vertex_maps()) + 1), "distinct_nontrivial": nontriv,
           "rule": "edge lists enumerated / simulated by TLC with the reference labels; each replayed with 5 vertex types "
                   "and through the Pandas co_equalizer expression; non-trivial = at least two edges and some merge happens",
           "tlc_runs": tr.runs, "outcomes": dict(stats), "exhaustive": False}
    common.write_evidence("C23", tier, "model_checking", cov, time.time() - t0, len(vd.violations),
                          assumptions=["vertices are rendered order-preservingly as ints, negative ints, strings, floats and tuples"])
    return vd.report()


# =============================================================================================
# C25 result cache
# =============================================================================================
def ec_pool():
    """concrete data maps for the abstract pool of MC_EvalCache: 0 base; 1 copy of base (equal); 2 one value changed;
    3 column renamed; 4 one row less; 5 rows reversed; 6 table renamed; 7 dtype int instead of float; 8 two tables"""
    import pandas
    base = pandas.DataFrame({"x": [1.0, 2.0, 3.0], "g": ["a", "b", "a"]})
    pool = {
        0: {"d": base},
        1: {"d": base.copy()},
        2: {"d": pandas.DataFrame({"x": [1.0, 2.5, 3.0], "g": ["a", "b", "a"]})},
        3: {"d": base.rename(columns={"x": "x2"})},
        4: {"d": base.iloc[:2].reset_index(drop=True)},
        5: {"d": base.iloc[::-1].reset_index(drop=True)},
        6: {"e": base.copy()},
        7: {"d": pandas.DataFrame({"x": [1, 2, 3], "g": ["a", "b", "a"]})},
        8: {"d": base.copy(), "e": base.copy()},
    }
    A = pandas.DataFrame({"x": [1.0, 2.0], "g": ["a", "b"]})
    B = pandas.DataFrame({"x": [5.0, 6.0], "g": ["c", "d"]})
    m9 = {}
    m9["e"] = A.copy()
    m9["d"] = B.copy()
    m10 = {}
    m10["d"] = B.copy()
    m10["e"] = A.copy()
    m11 = {}
    m11["d"] = A.copy()
    m11["e"] = B.copy()
    pool.update({9: m9, 10: m10, 11: m11})
    return pool


def ec_replay_case(case):
    import pandas
    import data_algebra.eval_cache as ecm
    import data_algebra.SQLite
    import data_algebra.PostgreSQL
    models = {"sqlite": data_algebra.SQLite.SQLiteModel(), "pg": data_algebra.PostgreSQL.PostgreSQLModel()}
    results = {"r1": pandas.DataFrame({"z": [1.0, 2.0]}), "r2": pandas.DataFrame({"z": [5.0]})}
    pool = ec_pool()
    cache = ecm.ResultCache()
    held = []
    for i, e in enumerate(case["hist"]):
        if e["op"] == "store":
            fr = results[e["r"]].copy()
            cache.store(db_model=models[e["d"]], sql=e["q"], data_map=pool[e["m"]], res=fr)
            held.append(fr)
        elif e["op"] == "get":
            try:
                got = cache.get(db_model=models[e["d"]], sql=e["q"], data_map=pool[e["m"]])
                hit = True
            except KeyError:
                got, hit = None, False
            if hit != e["hit"]:
                return ("diverge", i, "hit=%s expected %s" % (hit, e["hit"]))
            if hit:
                if not got.equals(results[e["ret"]]):
                    return ("diverge", i, "returned frame differs from the stored result %s" % e["ret"])
                held.append(got)
        elif e["op"] == "mutate":
            j = e["r"] - 1
            if j < len(held):
                held[j].iloc[0, 0] = -99.0
                held[j]["extra"] = 1
    return ("ok",)


def ec_key_injectivity():
    """C25 last sentence, exhaustively over the pool: two pool members share a key iff they are equal data"""
    import data_algebra.eval_cache as ecm
    import data_algebra.SQLite
    m = data_algebra.SQLite.SQLiteModel()
    pool = ec_pool()
    keys = {i: ecm.make_cache_key(db_model=m, sql="q", data_map=pool[i]) for i in pool}
    bad = []
    for i in pool:
        for j in pool:
            same = keys[i] == keys[j]
            want = (i == j) or ({i, j} == {0, 1}) or ({i, j} == {9, 10})
            if same != want:
                bad.append((i, j, same))
    return bad


def check_C25(tier, replay=None):
    import multiprocessing
    t0 = time.time()
    vd = common.Verdicts("C25")
    tr = TlcRun()
    stats = collections.Counter()
    quick = tier == "quick"
    if replay:
        rec = json.load(open(replay))
        print(ec_replay_case(rec["case"]) if "case" in rec else rec)
        return 1
    consts = {"NONE": "= NONE", "Dialects": "<- MC_Dialects", "Sqls": "<- MC_Sqls", "Pool": "<- " + ("MC_PoolQ" if quick else "MC_Pool"),
              "Class": "<- MC_Class", "Results": "<- MC_Results", "MaxOps": "= 3"}
    r = run_sm("MC_EvalCache", consts, invariants=["HitOnlyIfStored", "ReturnsStored"], tr=tr,
               what="all store/get/mutate histories of <= 3 calls: a hit iff an equal key was stored; returns the last stored")
    if r.violated:
        vd.violation({"kind": "tlc-law", "what": "EvalCache", "violated": r.violated, "trace": r.trace[:200]})
    r = run_sm("MC_EvalCache", dict(consts, Pool="<- MC_Pool", MaxOps="= 6"), emit="Emit", tr=tr,
               simulate={"num": 1500 if quick else 20000, "seed": common.seed()}, depth=7,
               what="simulated histories of 6 calls over the near-duplicate pool")
    lines = list(r.lines)
    for pool_name, what in (("MC_Pool3", "base / equal copy / one value changed"), ("MC_PoolT", "two-table maps: insertion order vs exchanged contents")):
        r = run_sm("MC_EvalCache", dict(consts, Dialects="<- MC_D1", Sqls="<- MC_S1", Pool="<- " + pool_name, MaxOps="= 4"), emit="Emit", tr=tr,
                   what="every store/get/mutate history of 4 calls on one dialect and one SQL text over the pool {%s}" % what)
        lines += r.lines
    cases = parse_hist_cases(lines, limit=(30000 if quick else 80000))
    ctx = multiprocessing.get_context("fork")
    with ctx.Pool(16) as pool:
        for case, v in zip(cases, pool.imap(ec_replay_case, cases, chunksize=32)):
            stats["replay:" + v[0]] += 1
            if v[0] != "ok":
                vd.violation({"kind": "history", "case": case, "verdict": v})
    bad = ec_key_injectivity()
    stats["key_pairs_checked"] = len(ec_pool()) ** 2
    for b in bad:
        vd.violation({"kind": "key-injectivity", "pair": b})
    nontriv = sum(1 for c in cases if any(e["op"] == "get" and e["hit"] for e in c["hist"]))
    cov = {"states": tr.states, "transitions": tr.transitions, "traces_validated_against_impl": len(cases),
           "samples": [[[e["op"], e["d"], e["q"], e["m"], e["r"], e["hit"]] for e in c["hist"]] for c in cases[:2]],
           "evaluations": len(cases) + stats["key_pairs_checked"], "distinct_nontrivial": nontriv,
           "rule": "histories of EvalCache.tla replayed on ResultCache with concrete frames; non-trivial = contains a lookup that hits; "
                   "plus all 81 ordered pairs of the near-duplicate pool for key injectivity",
           "tlc_runs": tr.runs, "outcomes": dict(stats)}
    common.write_evidence("C25", tier, "model_checking", cov, time.time() - t0, len(vd.violations),
                          assumptions=["pool of near-duplicate data maps: copy, one value, column name, shape, row order, table name, dtype, extra table"])
    return vd.report()


# =============================================================================================
# C22 schema decorators
# =============================================================================================
def sc_value(v, frame_lib="pandas"):
    import pandas
    import polars
    t = v[0]
    if t == "int":
        return int(v[1])
    if t == "float":
        return v[1] + 0.5
    if t == "str":
        return "s%d" % v[1]
    if t == "bool":
        return True
    if t == "null":
        return None
    if t == "frame":
        cols = {}
        for name, cells in v[1]:
            cols[name] = [sc_value(c) for c in cells]
        if frame_lib == "polars":
            return polars.DataFrame(cols, strict=False)
        return pandas.DataFrame({k: pandas.Series(vals, dtype=object) for k, vals in cols.items()})
    raise ValueError(v)


def sc_type(t):
    return {"int": int, "float": float, "str": str, "bool": bool}[t]


def sc_spec(sp):
    k = sp[0]
    if k == "none":
        return None
    if k == "type":
        return sc_type(sp[1])
    if k == "types":
        return {sc_type(t) for t in sp[1]}
    if k == "ex":
        return sc_value(sp[1])
    if k == "exs":
        return {sc_value(v) for v in sp[1]}
    if k == "cols":
        return {c[0]: sc_spec(c[1]) for c in sp[1:]}
    raise ValueError(sp)


def sc_polars_ok(call):
    """polars frames cannot hold the mixed-type column of FD"""
    def mixed(v):
        return v[0] == "frame" and any(len({c[0] for c in cells if c[0] != "null"}) > 1 for _, cells in v[1])
    return not (mixed(call["b"]) or mixed(call["r"]))


def sc_replay_case(case):
    import data_algebra.data_schema as dsm
    sw = dsm.SchemaCheckSwitch()
    sw.on()
    # functions are ALSO decorated ahead of time, right after the first event of the history (so that a decoration made
    # while checking is off is later called with checking on): the switch is consulted when the function is CALLED
    early = {}
    try:
        for i, e in enumerate(case["hist"]):
            if i == 1 or (i == 0 and e["op"] == "call"):
                for j, e2 in enumerate(case["hist"]):
                    if e2["op"] == "call":
                        c2 = e2["call"]
                        specs2 = {}
                        if c2["aspec"] != "UNDECL":
                            specs2["a"] = sc_spec(c2["aspec"])
                        if c2["bspec"] != "UNDECL":
                            specs2["b"] = sc_spec(c2["bspec"])
                        rv2 = sc_value(c2["r"], "pandas")

                        @dsm.SchemaRaises(specs2, return_spec=sc_spec(c2["rspec"]))
                        def g(a="default_a", b="default_b", _rv=rv2):
                            return _rv
                        early[j] = (g, rv2)
            if e["op"] == "on":
                sw.on()
                continue
            if e["op"] == "off":
                sw.off()
                continue
            c = e["call"]
            libs = ["pandas"] + (["polars"] if sc_polars_ok(c) else [])
            for lib in libs:
                arg_specs = {}
                if c["aspec"] != "UNDECL":
                    arg_specs["a"] = sc_spec(c["aspec"])
                if c["bspec"] != "UNDECL":
                    arg_specs["b"] = sc_spec(c["bspec"])
                retval = sc_value(c["r"], lib)

                @dsm.SchemaRaises(arg_specs, return_spec=sc_spec(c["rspec"]))
                def f(a="default_a", b="default_b", _rv=retval):
                    return _rv
                args, kwargs = [], {}
                if c["amode"] == "pos":
                    args.append(sc_value(c["a"], lib))
                elif c["amode"] == "kw":
                    kwargs["a"] = sc_value(c["a"], lib)
                if c["bmode"] == "pos":
                    args.append(sc_value(c["b"], lib))
                elif c["bmode"] == "kw":
                    kwargs["b"] = sc_value(c["b"], lib)
                try:
                    got = f(*args, **kwargs)
                    raised = False
                except TypeError as ex:
                    raised = True
                    got = str(ex)[:200]
                if raised != e["raises"]:
                    return ("diverge", i, {"lib": lib, "raised": raised, "expected": e["raises"], "detail": str(got)[:200]})
                if not raised and got is not retval:
                    return ("diverge", i, {"lib": lib, "why": "return value is not the function's own result"})
                if lib == "pandas" and i in early:
                    g, rv2 = early[i]
                    try:
                        got2 = g(*args, **kwargs)
                        raised2 = False
                    except TypeError as ex:
                        raised2, got2 = True, str(ex)[:200]
                    if raised2 != e["raises"]:
                        return ("diverge", i, {"lib": lib, "why": "function decorated earlier in the history", "raised": raised2,
                                               "expected": e["raises"], "detail": str(got2)[:200]})
    finally:
        sw.on()
    return ("ok",)


SC_CONST = {"NONE": "= NONE", "UNDECL": "= UNDECL", "ASpecs": "<- MC_ASpecs", "BSpecs": "<- MC_BSpecs", "RSpecs": "<- MC_RSpecs",
            "AVals": "<- MC_AVals", "BVals": "<- MC_BVals", "RVals": "<- MC_RVals", "Dev": "<- NoDev"}


def check_C22(tier, replay=None):
    import multiprocessing
    t0 = time.time()
    vd = common.Verdicts("C22")
    tr = TlcRun()
    stats = collections.Counter()
    quick = tier == "quick"
    if replay:
        rec = json.load(open(replay))
        print(sc_replay_case(rec["case"]))
        return 1
    laws = ["OffNeverRaises", "ExampleDeclaresItsType"]
    r = run_sm("MC_Schema", dict(SC_CONST, MaxOps="= 1", SampleK="= 0", EmitOneIn="= %d" % (40 if quick else 4)),
               invariants=laws, emit="Emit", tr=tr,
               what="every specification x call (193k): reference ShouldRaise; one in %d replayed" % (40 if quick else 4))
    if r.violated:
        vd.violation({"kind": "tlc-law", "what": "Schema", "violated": r.violated, "trace": r.trace[:200]})
    lines = list(r.lines)
    r = run_sm("MC_Schema", dict(SC_CONST, MaxOps="= 4", SampleK="= 4", EmitOneIn="= 1"), invariants=laws, emit="Emit", tr=tr,
               simulate={"num": 1000 if quick else 12000, "seed": common.seed()}, depth=6,
               what="simulated histories of switch flips and calls")
    lines += r.lines
    # the repaired defect D13 as a model-level check: the deviation must break agreement with the reference
    cases = parse_hist_cases(lines, limit=(9000 if quick else 120000))
    ctx = multiprocessing.get_context("fork")
    with ctx.Pool(16) as pool:
        for case, v in zip(cases, pool.imap(sc_replay_case, cases, chunksize=64)):
            stats["replay:" + v[0]] += 1
            if v[0] != "ok":
                vd.violation({"kind": "history", "case": case, "verdict": v})
    nontriv = sum(1 for c in cases if any(e["op"] == "call" and e["raises"] for e in c["hist"]))
    cov = {"states": tr.states, "transitions": tr.transitions, "traces_validated_against_impl": len(cases),
           "samples": [c["hist"] for c in cases[:2]], "evaluations": len(cases), "distinct_nontrivial": nontriv,
           "rule": "calls enumerated by TLC over specification and value pools, with the expected raise/return; replayed on a freshly "
                   "decorated function with Pandas and Polars frames; non-trivial = some call must raise",
           "tlc_runs": tr.runs, "outcomes": dict(stats)}
    common.write_evidence("C22", tier, "model_checking", cov, time.time() - t0, len(vd.violations),
                          assumptions=["null scalar arguments are not generated (the property speaks of non-null values)",
                                       "types int, float, str, bool with Python's bool <: int; frames with float/str/int/mixed/empty columns"])
    return vd.report()


CHECKS = {
    "C20": check_C20,
    "C22": check_C22,
    "C23": check_C23,
    "C24": check_C24,
    "C25": check_C25,
}
