"""More properties decided on the Exec.tla machine: C06 (builder simplifications), C07 (composition),
C10 (columns_used), C11 (equality), C15 (naming), C19 (no mutation, repeatable), C26 (rejection at
build time), C04 (SQL options).  TLC checks the corresponding laws of the specification
(BuilderMeaning, BuilderAcceptance, Irrelevance, ...) and generates the behaviours; the workers
below replay each behaviour into the real code."""
import collections
import copy
import itertools
import json
import multiprocessing
import os
import random
import re
import time
import traceback

from . import common
from . import relchecks as rc
from . import relreplay
from . import relcase
from .relcase import abs_table, same_table, spec_table
from .rel_props import T1, T12, SIMT, UNARY, ASSUME_REL, has_op, nt_rows

LAWS_ALL = ["DeclaredCols", "HistOK", "StepLaw"]


WORKERS = {}


def _dispatch(a):
    name, case, extra = a
    try:
        return WORKERS[name]((case, extra))
    except Exception:  # noqa: BLE001
        return {"status": "crash", "detail": traceback.format_exc()[-1500:]}


def run_workers(cases, fn, extra=None, procs=16):
    args = [(fn.__name__, c, extra) for c in cases]
    if procs <= 1 or len(cases) < 8:
        for a in args:
            yield a[1], _dispatch(a)
        return
    ctx = multiprocessing.get_context("fork")
    with ctx.Pool(procs) as pool:
        for c, o in zip(cases, pool.imap(_dispatch, args, chunksize=8)):
            yield c, o


def safe(fn):
    WORKERS[fn.__name__] = fn
    return fn


def generic_plan(prop, tier, plan, worker, replay=None, extra=None):
    """(1) TLC laws, (2) TLC behaviours, (3) replay through `worker`; worker returns
    {"status": ok|skip|violation|known, "id": finding id, "detail": ..., "stats": {...}}"""
    t0 = time.time()
    vd = common.Verdicts(prop)
    stats = collections.Counter()
    if replay:
        rec = json.load(open(replay))
        if rec.get("kind") == "tlc-law":
            print("TLC law violation recorded: %s violated %s" % (rec["what"], rec["violated"]))
            print("\n".join(rec["trace"][:80]))
            return 1
        out = _dispatch((worker.__name__, rec["case"], extra))
        print(json.dumps(out, indent=1, default=str)[:6000])
        return 1 if out["status"] in ("violation", "crash") else 0
    tr = rc.TlcRun()
    for m in plan.get("mc", []):
        m = dict(m)
        tiers = m.pop("tier", None)
        if tiers and tier not in tiers:
            continue
        what = m.pop("what")
        must = m.pop("must_violate", None)
        res = rc.run_exec(tr, what, invariants=m.pop("invariants", LAWS_ALL), **m)
        if must:
            stats["deviation model %s violates" % m.get("bdev", "")] = res.violated or "nothing"
            if res.violated not in must:
                raise common.MachineryError("%s: expected one of %s to be violated, got %s" % (what, must, res.violated))
        elif res.violated or res.deadlock:
            rc.law_violation(vd, res, what)
    results = []
    for e in plan.get("emit", []):
        e = dict(e)
        tiers = e.pop("tier", None)
        if tiers and tier not in tiers:
            continue
        what = e.pop("what")
        results.append(rc.run_exec(tr, what, emit=True, backends=True, **e))
    sim = plan.get("sim")
    if sim:
        sim = dict(sim)
        num = sim.pop("num")[0 if tier == "quick" else 1]
        what = sim.pop("what", "simulation")
        seeds = [common.seed()] if tier == "quick" else [common.seed(), common.seed() + 1000003]
        for sd in seeds:
            results.append(rc.run_exec(tr, "%s seed=%d" % (what, sd), simulate={"num": num, "seed": sd}, emit=True,
                                       backends=True, level=2, samplek=sim.pop("samplek", 6) if "samplek" in sim else 6,
                                       **{k: v for k, v in sim.items()}))
    limit = plan.get("limit", (6000, 60000))[0 if tier == "quick" else 1]
    cases = rc.collect_cases(results, limit=limit)
    pre = plan.get("prepare")
    if pre:
        cases = pre(cases, tier)
    nontriv = 0
    for case, out in run_workers(cases, worker, extra):
        stats["cases"] += 1
        st = out["status"]
        stats[st] += 1
        for k, v in out.get("stats", {}).items():
            stats[k] += v
        if out.get("nontrivial"):
            nontriv += 1
        if st == "crash":
            raise common.MachineryError("worker crashed: " + out["detail"])
        if st == "known":
            vd.note_known(out["id"])
        elif st == "violation":
            vd.violation({"kind": out.get("kind", prop), "case": case, "detail": out.get("detail")}, tag=out.get("tag"))
    cov = {
        "states": tr.states, "transitions": tr.transitions,
        "traces_validated_against_impl": stats["cases"],
        "samples": [plan.get("sample", rc.short_case)(c) for c in cases[:3]],
        "evaluations": stats["cases"], "distinct_nontrivial": nontriv,
        "rule": plan["rule"], "tlc_runs": tr.runs, "outcomes": dict(stats),
        "known_findings_seen": dict(vd.known), "exhaustive": False,
    }
    common.write_evidence(prop, tier, "model_checking", cov, time.time() - t0, len(vd.violations),
                          assumptions=plan.get("assumptions", ASSUME_REL))
    return vd.report()


# ============================================================================================= C26
@safe
def w_c26(args):
    case, _ = args
    built = relcase.build(case)
    want = [h["ok"] for h in case["hist"]]
    nbad = sum(1 for w in want if not w)
    for i, (g, w) in enumerate(zip(built.accepted, want)):
        if g != w:
            return {"status": "violation", "nontrivial": True, "tag": "%s:%s" % (case["prog"][i][0], "accepted" if g else "rejected"),
                    "detail": {"step": i, "call": case["prog"][i], "builder_accepted": g, "rules_accept": w,
                               "error": built.errors[i]}}
    return {"status": "ok", "nontrivial": nbad > 0, "stats": {"steps_rejected_as_expected": nbad,
                                                              "steps_accepted_as_expected": len(want) - nbad}}


ALLF = ["extend", "wextend", "project", "select_rows", "cols", "order", "stack", "binary"]
BUILDER_LAWS = ["HistOK", "BuilderMeaning", "BuilderAcceptance"]

PLAN_C26 = {
    "mc": [
        dict(what="BuilderAcceptance: every rule-breaking and rule-conforming step after every 1-step prefix (one table, no rows)",
             fams=UNARY, rows=0, steps=2, level=1, genbad=True, invariants=BUILDER_LAWS, **T1),
        dict(what="BuilderAcceptance with joins: two tables, prefixes of <= 2 steps (no rows)",
             fams=["order", "cols", "stack", "binary"], rows=0, steps=3, level=1, genbad=True, invariants=BUILDER_LAWS, **T12),
        dict(what="deviation model: select_columns collapse validated against the source (D2) must break BuilderAcceptance",
             fams=["cols"], rows=0, steps=2, level=1, genbad=True, invariants=BUILDER_LAWS, bdev="BDevSelectCollapse",
             must_violate=("BuilderAcceptance",), **T1),
        dict(what="deviation model: join key check dropped after an unlimited order_rows (D3) must break BuilderAcceptance",
             fams=["order", "stack", "binary"], rows=0, steps=3, level=1, genbad=True, invariants=BUILDER_LAWS,
             bdev="BDevJoinCheck", must_violate=("BuilderAcceptance",), **T12),
    ],
    "emit": [
        dict(what="all behaviours of 2 calls with rule-breaking steps, one table", fams=UNARY, rows=0, steps=2, level=1,
             genbad=True, one_in=3, **T1),
        dict(what="all behaviours of 3 calls around joins with rule-breaking steps, two tables",
             fams=["order", "cols", "stack", "binary"], rows=0, steps=3, level=1, genbad=True, one_in=6, **T12),
    ],
    "sim": dict(what="random behaviours of 4 calls incl. rule-breaking steps", num=(2500, 25000), rows=0, steps=4, genbad=True, **SIMT),
    "rule": "behaviours of Exec.tla with GenBad: after every valid prefix each construction rule is broken in turn "
            "(unknown column, produced column used in the same extend, partition/order column changed, ordered function "
            "without order_by, aggregate with order_by, non-aggregating / too complex project or window expression, missing "
            "join keys, CROSS with keys, requested common-key check, concat of different columns, rename onto an existing "
            "column) next to rule-conforming steps; non-trivial = contains at least one rule-breaking step",
    "limit": (12000, 120000),
    "assumptions": ["the construction rules are the operators *OK of spec/Relational.tla and WellFormed of spec/Exec.tla, written from the "
                    "builder docstrings and the property text", "only acceptance at the builder call is observed; nothing is evaluated"],
}


def check_C26(tier, replay=None):
    return generic_plan("C26", tier, PLAN_C26, w_c26, replay)


CHECKS = {"C26": check_C26}
