"""More properties decided on the Exec.tla machine: C06 (builder simplifications), C07 (composition),
C10 (columns_used), C11 (equality), C15 (naming), C19 (no mutation, repeatable), C26 (rejection at
build time), C04 (SQL options).  TLC checks the corresponding laws of the specification
(BuilderMeaning, BuilderAcceptance, Irrelevance, ...) and generates the behaviours; the workers
below replay each behaviour into the real code."""
import collections
import copy
import itertools
import json
import multiprocessing
import os
import random
import re
import time
import traceback

from . import common
from . import relchecks as rc
from . import relreplay
from . import relcase
from .relcase import abs_table, same_table, spec_table
from .rel_props import T1, T12, SIMT, UNARY, ASSUME_REL, has_op, nt_rows

LAWS_ALL = ["DeclaredCols", "HistOK", "StepLaw"]


WORKERS = {}


def _dispatch(a):
    name, case, extra = a
    try:
        return WORKERS[name]((case, extra))
    except Exception:  # noqa: BLE001
        return {"status": "crash", "detail": traceback.format_exc()[-1500:]}


def run_workers(cases, fn, extra=None, procs=16):
    args = [(fn.__name__, c, extra) for c in cases]
    if procs <= 1 or len(cases) < 8:
        for a in args:
            yield a[1], _dispatch(a)
        return
    ctx = multiprocessing.get_context("fork")
    with ctx.Pool(procs) as pool:
        for c, o in zip(cases, pool.imap(_dispatch, args, chunksize=8)):
            yield c, o


def safe(fn):
    WORKERS[fn.__name__] = fn
    return fn


def generic_plan(prop, tier, plan, worker, replay=None, extra=None):
    """(1) TLC laws, (2) TLC behaviours, (3) replay through `worker`; worker returns
    {"status": ok|skip|violation|known, "id": finding id, "detail": ..., "stats": {...}}"""
    t0 = time.time()
    vd = common.Verdicts(prop)
    stats = collections.Counter()
    if replay:
        rec = json.load(open(replay))
        if rec.get("kind") == "tlc-law":
            print("TLC law violation recorded: %s violated %s" % (rec["what"], rec["violated"]))
            print("\n".join(rec["trace"][:80]))
            return 1
        out = _dispatch((worker.__name__, rec["case"], extra))
        print(json.dumps(out, indent=1, default=str)[:6000])
        return 1 if out["status"] in ("violation", "crash") else 0
    tr = rc.TlcRun()
    for m in plan.get("mc", []):
        m = dict(m)
        tiers = m.pop("tier", None)
        if tiers and tier not in tiers:
            continue
        what = m.pop("what")
        must = m.pop("must_violate", None)
        res = rc.run_exec(tr, what, invariants=m.pop("invariants", LAWS_ALL), **m)
        if must:
            stats["deviation model %s violates" % m.get("bdev", "")] = res.violated or "nothing"
            if res.violated not in must:
                raise common.MachineryError("%s: expected one of %s to be violated, got %s" % (what, must, res.violated))
        elif res.violated or res.deadlock:
            rc.law_violation(vd, res, what)
    results = []
    for e in plan.get("emit", []):
        e = dict(e)
        tiers = e.pop("tier", None)
        if tiers and tier not in tiers:
            continue
        what = e.pop("what")
        results.append(rc.run_exec(tr, what, emit=True, backends=True, **e))
    sim = plan.get("sim")
    if sim:
        sim = dict(sim)
        num = sim.pop("num")[0 if tier == "quick" else 1]
        what = sim.pop("what", "simulation")
        seeds = [common.seed()] if tier == "quick" else [common.seed(), common.seed() + 1000003]
        for sd in seeds:
            results.append(rc.run_exec(tr, "%s seed=%d" % (what, sd), simulate={"num": num, "seed": sd}, emit=True,
                                       backends=True, level=2, samplek=sim.pop("samplek", 6) if "samplek" in sim else 6,
                                       **{k: v for k, v in sim.items()}))
    limit = plan.get("limit", (6000, 60000))[0 if tier == "quick" else 1]
    cases = rc.collect_cases(results, limit=limit)
    pre = plan.get("prepare")
    if pre:
        cases = pre(cases, tier)
    nontriv = 0
    for case, out in run_workers(cases, worker, extra):
        stats["cases"] += 1
        st = out["status"]
        stats[st] += 1
        for k, v in out.get("stats", {}).items():
            stats[k] += v
        if out.get("nontrivial"):
            nontriv += 1
        if st == "crash":
            raise common.MachineryError("worker crashed: " + out["detail"])
        if st == "known":
            vd.note_known(out["id"])
        elif st == "violation":
            vd.violation({"kind": out.get("kind", prop), "case": case, "detail": out.get("detail")}, tag=out.get("tag"))
    cov = {
        "states": tr.states, "transitions": tr.transitions,
        "traces_validated_against_impl": stats["cases"],
        "samples": [plan.get("sample", rc.short_case)(c) for c in cases[:3]],
        "evaluations": stats["cases"], "distinct_nontrivial": nontriv,
        "rule": plan["rule"], "tlc_runs": tr.runs, "outcomes": dict(stats),
        "known_findings_seen": dict(vd.known), "exhaustive": False,
    }
    common.write_evidence(prop, tier, "model_checking", cov, time.time() - t0, len(vd.violations),
                          assumptions=plan.get("assumptions", ASSUME_REL))
    return vd.report()


# ============================================================================================= C26
@safe
def w_c26(args):
    case, _ = args
    built = relcase.build(case)
    want = [h["ok"] for h in case["hist"]]
    nbad = sum(1 for w in want if not w)
    for i, (g, w) in enumerate(zip(built.accepted, want)):
        if g != w:
            return {"status": "violation", "nontrivial": True, "tag": "%s:%s" % (case["prog"][i][0], "accepted" if g else "rejected"),
                    "detail": {"step": i, "call": case["prog"][i], "builder_accepted": g, "rules_accept": w,
                               "error": built.errors[i]}}
    return {"status": "ok", "nontrivial": nbad > 0, "stats": {"steps_rejected_as_expected": nbad,
                                                              "steps_accepted_as_expected": len(want) - nbad}}


ALLF = ["extend", "wextend", "project", "select_rows", "cols", "order", "stack", "binary"]
BUILDER_LAWS = ["HistOK", "BuilderMeaning", "BuilderAcceptance"]

PLAN_C26 = {
    "mc": [
        dict(what="BuilderAcceptance: every rule-breaking and rule-conforming step after every 1-step prefix (one table, no rows)",
             fams=UNARY, rows=0, steps=2, level=1, genbad=True, invariants=BUILDER_LAWS, **T1),
        dict(what="BuilderAcceptance with joins: two tables, prefixes of <= 2 steps (no rows)",
             fams=["order", "cols", "stack", "binary"], rows=0, steps=3, level=1, genbad=True, invariants=BUILDER_LAWS, **T12),
        dict(what="deviation model: select_columns collapse validated against the source (D2) must break BuilderAcceptance",
             fams=["cols"], rows=0, steps=2, level=1, genbad=True, invariants=BUILDER_LAWS, bdev="BDevSelectCollapse",
             must_violate=("BuilderAcceptance",), **T1),
        dict(what="deviation model: join key check dropped after an unlimited order_rows (D3) must break BuilderAcceptance",
             fams=["order", "stack", "binary"], rows=0, steps=3, level=1, genbad=True, invariants=BUILDER_LAWS,
             bdev="BDevJoinCheck", must_violate=("BuilderAcceptance",), **T12),
    ],
    "emit": [
        dict(what="all behaviours of 2 calls with rule-breaking steps, one table", fams=UNARY, rows=0, steps=2, level=1,
             genbad=True, one_in=3, **T1),
        dict(what="all behaviours of 3 calls around joins with rule-breaking steps, two tables",
             fams=["order", "cols", "stack", "binary"], rows=0, steps=3, level=1, genbad=True, one_in=6, **T12),
    ],
    "sim": dict(what="random behaviours of 4 calls incl. rule-breaking steps", num=(2500, 25000), rows=0, steps=4, genbad=True, **SIMT),
    "rule": "behaviours of Exec.tla with GenBad: after every valid prefix each construction rule is broken in turn "
            "(unknown column, produced column used in the same extend, partition/order column changed, ordered function "
            "without order_by, aggregate with order_by, non-aggregating / too complex project or window expression, missing "
            "join keys, CROSS with keys, requested common-key check, concat of different columns, rename onto an existing "
            "column) next to rule-conforming steps; non-trivial = contains at least one rule-breaking step",
    "limit": (12000, 120000),
    "assumptions": ["the construction rules are the operators *OK of spec/Relational.tla and WellFormed of spec/Exec.tla, written from the "
                    "builder docstrings and the property text", "only acceptance at the builder call is observed; nothing is evaluated"],
}


def check_C26(tier, replay=None):
    return generic_plan("C26", tier, PLAN_C26, w_c26, replay)


CHECKS = {"C26": check_C26}


# ============================================================================================= C06
def _mat_desc(name, frame):
    return relcase.TableDescription(table_name=name, column_names=[str(c) for c in frame.columns])


@safe
def w_c06(args):
    """chained pipeline vs. applying each step to the MATERIALISED result of the previous one (both on the
    real Pandas executor): same acceptance at every call, same table after every accepted call"""
    case, _ = args
    be = relreplay._backends()
    frames = be.frames(case)
    built = relcase.build(case)
    kinds = case["kinds"]
    # stepwise: python stack of materialised frames
    mstack = [frames["t1"]]
    stats = collections.Counter()
    nontrivial = False
    for i, st in enumerate(case["prog"]):
        # (a) one-step pipeline over table descriptions of the materialised stack
        try:
            if st[0] == "table":
                new_stack = mstack + [frames[st[1]]]
                acc = True
            elif st[0] == "dup":
                new_stack = mstack + [mstack[-1]]
                acc = True
            else:
                nbin = 2 if st[0] in ("join", "joinc", "concat") else 1
                srcs = mstack[-nbin:]
                names = ["m%d" % k for k in range(nbin)]
                if nbin == 2 and srcs[0] is srcs[1]:
                    names = ["m0", "m0"]
                descs = [_mat_desc(n, f) for n, f in zip(names, srcs)]
                one = relcase.apply_step(descs, st, {})[-1]
                acc = True
        except Exception as ex:  # noqa: BLE001
            acc = False
            err = "%s: %s" % (type(ex).__name__, str(ex)[:200])
        if acc != built.accepted[i]:
            return {"status": "violation", "nontrivial": True, "tag": "acceptance:" + st[0],
                    "detail": {"step": i, "call": st, "chained_accepts": built.accepted[i], "stepwise_accepts": acc,
                               "chained_error": built.errors[i]}}
        if not acc:
            stats["rejected_both"] += 1
            continue
        if st[0] not in ("table", "dup"):
            try:
                res = one.eval({n: f for n, f in zip(names, srcs)})
            except Exception as ex:  # noqa: BLE001
                return {"status": "skip", "stats": {"stepwise_raised": 1}, "detail": str(ex)[:200]}
            new_stack = mstack[:-nbin] + [res]
        mstack = new_stack
        # (b) the chained pipeline as it stands after this call
        try:
            got = built.tops[i].eval(frames)
        except Exception as ex:  # noqa: BLE001
            return {"status": "skip", "stats": {"chained_raised": 1}, "detail": str(ex)[:200]}
        a, b = abs_table(got), abs_table(mstack[-1])
        ok, why = same_table(a, b, ordered=case["hist"][i]["ordered"])
        if not ok:
            return {"status": "violation", "nontrivial": True, "tag": "meaning:" + st[0],
                    "detail": {"step": i, "call": st, "why": why, "chained": a, "stepwise": b,
                               "chained_pipeline": str(built.tops[i])}}
        if i > 0 and st[0] not in ("table", "dup"):
            nontrivial = nontrivial or _dag_len(built.tops[i]) < _dag_len(built.tops[i - 1]) + 1
    # MODEL-DRIFT (informational): does the B model predict the DAG the builder really holds?
    drift = 0
    if case.get("dag") and all(h["ok"] for h in case["hist"]):
        drift = 0 if _shape(built.final) == _norm_shape(case["dag"]) else 1
    stats["model_drift_dag_shape"] = drift
    stats["simplified_by_builder"] = 1 if nontrivial else 0
    return {"status": "ok", "nontrivial": nontrivial, "stats": dict(stats)}


def _dag_len(ops):
    n = 1
    for s in ops.sources:
        n += _dag_len(s)
    return n


_NODE = {"ExtendNode": "extend", "ProjectNode": "project", "SelectRowsNode": "select_rows", "SelectColumnsNode": "select_columns",
         "DropColumnsNode": "drop_columns", "RenameColumnsNode": "rename", "OrderRowsNode": "order_rows",
         "NaturalJoinNode": "join", "ConcatRowsNode": "concat", "TableDescription": "table"}


def _shape(ops):
    k = _NODE.get(ops.node_name, ops.node_name)
    if k == "table":
        return ["table", ops.table_name]
    if k in ("join", "concat"):
        return [k, _shape(ops.sources[0]), _shape(ops.sources[1])]
    tg = sorted(ops.ops.keys()) if k in ("extend", "project") else []
    return [k, tg, _shape(ops.sources[0])]


def _norm_shape(d):
    if d[0] == "table":
        return ["table", d[1]]
    if d[0] in ("join", "joinc", "concat"):
        return ["join" if d[0] == "joinc" else d[0], _norm_shape(d[1]), _norm_shape(d[2])]
    k = "extend" if d[0] == "wextend" else d[0]
    return [k, sorted(d[1]), _norm_shape(d[2])]


TB = dict(tabcols="MCB_TabCols", colvals="MCB_ColVals")
C06F = ["extend", "extend2", "wextend", "cols", "order"]
PLAN_C06 = {
    "mc": [
        dict(what="BuilderMeaning/BuilderAcceptance: all 2-call sequences of extend / 2-assignment extend / select / drop / order_rows, <= 1 row",
             fams=["extend", "extend2", "cols", "order"], rows=1, steps=2, level=1, invariants=BUILDER_LAWS, timeout=200, **TB),
        dict(what="BuilderMeaning/BuilderAcceptance: all 3-call sequences of 2-assignment extends and order_rows, <= 1 row",
             fams=["extend2", "order"], rows=1, steps=3, level=1, invariants=BUILDER_LAWS, timeout=300, **TB),
        dict(what="BuilderMeaning/BuilderAcceptance: all 3-call sequences of extend / select / drop / order_rows, <= 1 row",
             fams=["extend", "cols", "order"], rows=1, steps=3, level=1, invariants=BUILDER_LAWS, timeout=600, tier=("thorough",), **TB),
        dict(what="BuilderMeaning: all 2-call sequences incl. windowed extends and limits, <= 2 rows",
             fams=["extend", "wextend", "cols", "order"], rows=2, steps=2, level=1, invariants=BUILDER_LAWS, timeout=900,
             tier=("thorough",), **TB),
        dict(what="deviation model: merge with a re-assigned column ignoring the other assignments (D1) must break BuilderMeaning",
             fams=["extend2"], rows=1, steps=2, level=1, invariants=BUILDER_LAWS, bdev="BDevMergeCommon",
             must_violate=("BuilderMeaning",), **TB),
    ],
    "emit": [
        dict(what="all 2-call sequences of extend / 2-assignment extend / select / drop / order_rows, <= 1 row (sampled)",
             fams=["extend", "extend2", "cols", "order"], rows=1, steps=2, level=1, one_in=40, genbad=True, timeout=200, **TB),
        dict(what="all 3-call sequences of 2-assignment extends and order_rows, <= 1 row (sampled)",
             fams=["extend2", "order"], rows=1, steps=3, level=1, one_in=500, timeout=300, **TB),
    ],
    "sim": dict(what="random pipelines of 4 calls biased to consecutive extends / selections / orderings",
                fams=["extend", "extend2", "wextend", "cols", "order", "select_rows", "stack", "binary"],
                num=(2000, 20000), rows=3, steps=4, genbad=True, **SIMT),
    "rule": "behaviours of Exec.tla; each is built as one chained pipeline and, independently, step by step over table "
            "descriptions of the materialised intermediate results; non-trivial = the builder really simplified "
            "(the DAG did not grow by one node at some call)",
    "limit": (5000, 50000),
    "assumptions": ASSUME_REL + ["both sides of the comparison run on the Pandas executor, so executor deviations cancel; a side that "
                                 "raises at evaluation is counted and not judged (C01/C03 judge executors)"],
}


def check_C06(tier, replay=None):
    return generic_plan("C06", tier, PLAN_C06, w_c06, replay)


CHECKS["C06"] = check_C06


# ============================================================================================= C10
def _perturb(df, col, mode, kind):
    import numpy
    import pandas
    d = df.copy()
    n = d.shape[0]
    if mode == "null":
        d[col] = pandas.Series([None] * n, dtype="str") if kind == "s" else numpy.nan
    else:
        if kind == "s":
            d[col] = pandas.Series(["q%d" % (i % 2) for i in range(n)], dtype="str")
        else:
            d[col] = [float(7 + 3 * i) for i in range(n)]
    return d


@safe
def w_c10(args):
    """perturb every input column that the CODE's columns_used() does not report: the result must not move
    (Pandas and SQLite, each against its own unperturbed result); SQL must run on tables restricted to the
    reported columns; the pipeline rebuilt over narrowed table descriptions must give the same result"""
    case, _ = args
    if not all(h["ok"] for h in case["hist"]):
        return {"status": "skip", "stats": {"has_rejected_step": 1}}
    be = relreplay._backends()
    built = relcase.build(case)
    ops = built.final
    kinds = case["kinds"]
    used = {k: set(v) for k, v in ops.columns_used().items()}
    frames = be.frames(case)
    ordered = case["hist"][-1]["ordered"]
    stats = collections.Counter()
    ref_used = collections.defaultdict(set)
    for t, c in case.get("used", []):
        ref_used[t].add(c)
    for t in used:
        if used[t] - ref_used[t]:
            stats["code_reports_more_than_reference"] += 1
        if ref_used[t] - used[t]:
            stats["code_reports_less_than_reference"] += 1
    base = {}
    try:
        base["pandas"] = abs_table(ops.eval(frames))
    except Exception:  # noqa: BLE001
        stats["pandas_raised"] += 1
    try:
        be.load_sqlite(case, frames=frames)
        base["sqlite"] = abs_table(be.sqlite.read_query(ops))
    except Exception:  # noqa: BLE001
        stats["sqlite_raised"] += 1
    if not base:
        return {"status": "skip", "stats": dict(stats)}
    nontrivial = False
    for t in sorted(used):
        cols = case["inp"][t]["cols"]
        for c in cols:
            if c in used[t]:
                continue
            nontrivial = True
            for mode in ("null", "other"):
                pf = dict(frames)
                pf[t] = _perturb(frames[t], c, mode, kinds[c])
                for b in base:
                    try:
                        if b == "pandas":
                            got = abs_table(ops.eval(pf))
                        else:
                            be.load_sqlite(case, frames=pf)
                            got = abs_table(be.sqlite.read_query(ops))
                    except Exception as ex:  # noqa: BLE001
                        return {"status": "violation", "nontrivial": True, "tag": "raise:" + b,
                                "detail": {"table": t, "column": c, "mode": mode, "backend": b, "reported": {k: sorted(v) for k, v in used.items()},
                                           "error": "%s: %s" % (type(ex).__name__, str(ex)[:300])}}
                    ok, why = same_table(got, base[b], ordered=ordered)
                    stats["perturbations"] += 1
                    if not ok:
                        return {"status": "violation", "nontrivial": True, "tag": "influence:" + b,
                                "detail": {"table": t, "column": c, "mode": mode, "backend": b, "why": why,
                                           "reported": {k: sorted(v) for k, v in used.items()},
                                           "base": base[b], "perturbed": got, "pipeline": str(ops)}}
    # restriction to the reported columns
    rf = {t: (frames[t][[c for c in case["inp"][t]["cols"] if c in used.get(t, set())]] if t in used else frames[t]) for t in frames}
    if "sqlite" in base and all(rf[t].shape[1] > 0 for t in used):
        try:
            be.load_sqlite(case, frames=rf)
            got = abs_table(be.sqlite.read_query(ops))
            ok, why = same_table(got, base["sqlite"], ordered=ordered)
        except Exception as ex:  # noqa: BLE001
            ok, why, got = False, "%s: %s" % (type(ex).__name__, str(ex)[:300]), None
        stats["sql_on_restricted_tables"] += 1
        if not ok:
            return {"status": "violation", "nontrivial": True, "tag": "restricted-sql",
                    "detail": {"why": why, "reported": {k: sorted(v) for k, v in used.items()}, "got": got,
                               "base": base["sqlite"], "pipeline": str(ops)}}
    if "pandas" in base and all(rf[t].shape[1] > 0 for t in used):
        ncase = dict(case)
        ncase["inp"] = {t: ({"cols": [c for c in tb["cols"] if c in used[t]], "rows": tb["rows"]} if t in used else tb)
                        for t, tb in case["inp"].items()}
        nb = relcase.build(ncase)
        if all(nb.accepted):
            try:
                got = abs_table(nb.final.eval(rf))
                ok, why = same_table(got, base["pandas"], ordered=ordered)
            except Exception as ex:  # noqa: BLE001
                ok, why, got = False, "%s: %s" % (type(ex).__name__, str(ex)[:300]), None
            stats["narrowed_rebuilds"] += 1
            if not ok:
                return {"status": "violation", "nontrivial": True, "tag": "narrowed",
                        "detail": {"why": why, "reported": {k: sorted(v) for k, v in used.items()}, "got": got, "base": base["pandas"]}}
        else:
            stats["narrowed_rebuild_not_possible"] += 1
    # leave the shared connection with the original tables
    return {"status": "ok", "nontrivial": nontrivial, "stats": dict(stats)}


IRR = ["HistOK", "Irrelevance"]
PLAN_C10 = {
    "mc": [
        dict(what="Irrelevance of columns outside the reference Used set: every unary step, one table, <= 1 row", fams=UNARY, rows=1,
             steps=1, level=1, invariants=IRR, timeout=300, tier=("quick",), **T1),
        dict(what="Irrelevance of columns outside the reference Used set: every unary step, one table, <= 2 rows", fams=UNARY, rows=2,
             steps=1, level=1, invariants=IRR, timeout=600, tier=("thorough",), **T1),
        dict(what="Irrelevance: all 2-call pipelines, one table, <= 1 row", fams=UNARY, rows=1, steps=2, level=1, invariants=IRR,
             timeout=900, tier=("thorough",), **TB),
        dict(what="Irrelevance: join/concat of two tables, <= 1 row", fams=["stack", "binary"], rows=1, steps=2, level=1, invariants=IRR,
             timeout=300, **T12),
    ],
    "emit": [
        dict(what="all 2-call pipelines, one table, <= 1 row (sampled)", fams=UNARY, rows=1, steps=2, level=1, one_in=150, timeout=900,
             tier=("thorough",), **TB),
        dict(what="join/concat of two tables, <= 1 row (sampled)", fams=["stack", "binary"], rows=1, steps=2, level=2, one_in=10, **T12),
    ],
    "sim": dict(what="random pipelines of 4 calls over 2 tables of <= 3 rows", num=(1500, 15000), rows=3, steps=4, **SIMT),
    "rule": "behaviours of Exec.tla; for each, every input column the code's columns_used() does not report is set to nulls and to "
            "other values (Pandas and SQLite must return their unperturbed result), the SQL is run on tables restricted to the "
            "reported columns, and the pipeline rebuilt over narrowed table descriptions is evaluated on restricted frames; "
            "non-trivial = at least one column of a used table is unreported",
    "limit": (3000, 30000),
    "assumptions": ASSUME_REL + ["each backend is compared with its own unperturbed result, so executor deviations cancel",
                                 "narrowed rebuilds are possible only when no step names a removed column in a select/drop list"],
}


def check_C10(tier, replay=None):
    return generic_plan("C10", tier, PLAN_C10, w_c10, replay)


CHECKS["C10"] = check_C10
