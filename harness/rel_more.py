"""More properties decided on the Exec.tla machine: C06 (builder simplifications), C07 (composition),
C10 (columns_used), C11 (equality), C15 (naming), C19 (no mutation, repeatable), C26 (rejection at
build time), C04 (SQL options).  TLC checks the corresponding laws of the specification
(BuilderMeaning, BuilderAcceptance, Irrelevance, ...) and generates the behaviours; the workers
below replay each behaviour into the real code."""
import collections
import copy
import itertools
import json
import multiprocessing
import os
import random
import re
import time
import traceback

from . import common
from . import relchecks as rc
from . import relreplay
from . import relcase
from .relcase import abs_table, same_table, spec_table
from .rel_props import T1, T12, SIMT, UNARY, ASSUME_REL, has_op, nt_rows, micro, MICRO_W2, MICRO_WP, MICRO_OO2, MICRO_OJ

LAWS_ALL = ["DeclaredCols", "HistOK", "StepLaw"]


WORKERS = {}


def _dispatch(a):
    name, case, extra = a
    try:
        return WORKERS[name]((case, extra))
    except Exception:  # noqa: BLE001
        return {"status": "crash", "detail": traceback.format_exc()[-1500:]}


def run_workers(cases, fn, extra=None, procs=16):
    args = [(fn.__name__, c, extra) for c in cases]
    if procs <= 1 or len(cases) < 8:
        for a in args:
            yield a[1], _dispatch(a)
        return
    ctx = multiprocessing.get_context("fork")
    with ctx.Pool(procs) as pool:
        for c, o in zip(cases, pool.imap(_dispatch, args, chunksize=8)):
            yield c, o


def safe(fn):
    WORKERS[fn.__name__] = fn
    return fn


def generic_plan(prop, tier, plan, worker, replay=None, extra=None, post=None):
    """(1) TLC laws, (2) TLC behaviours, (3) replay through `worker`; worker returns
    {"status": ok|skip|violation|known, "id": finding id, "detail": ..., "stats": {...}}"""
    t0 = time.time()
    vd = common.Verdicts(prop)
    stats = collections.Counter()
    if replay:
        rec = json.load(open(replay))
        if rec.get("kind") == "tlc-law":
            print("TLC law violation recorded: %s violated %s" % (rec["what"], rec["violated"]))
            print("\n".join(rec["trace"][:80]))
            return 1
        out = _dispatch((worker.__name__, rec["case"], extra))
        print(json.dumps(out, indent=1, default=str)[:6000])
        return 1 if out["status"] in ("violation", "crash") else 0
    tr = rc.TlcRun()
    for m in plan.get("mc", []):
        m = dict(m)
        tiers = m.pop("tier", None)
        if tiers and tier not in tiers:
            continue
        what = m.pop("what")
        must = m.pop("must_violate", None)
        res = rc.run_exec(tr, what, invariants=m.pop("invariants", LAWS_ALL), allow_eval_error=bool(must), **m)
        if must:
            stats["deviation model %s violates" % m.get("bdev", "")] = res.violated or "nothing"
            if res.violated not in must:
                raise common.MachineryError("%s: expected one of %s to be violated, got %s" % (what, must, res.violated))
        elif res.violated or res.deadlock:
            rc.law_violation(vd, res, what)
    results = []
    for e in plan.get("emit", []):
        e = dict(e)
        tiers = e.pop("tier", None)
        if tiers and tier not in tiers:
            continue
        what = e.pop("what")
        quota = e.pop("quota", None)
        r_ = rc.run_exec(tr, what, emit=True, backends=True, **e)       # an emit entry may carry invariants: laws and cases from one run
        r_.quota = quota                                                 # replay at least this many of this stratum's behaviours
        if r_.violated or r_.deadlock:
            rc.law_violation(vd, r_, what)
        results.append(r_)
    sim = plan.get("sim")
    if sim:
        sim = dict(sim)
        num = sim.pop("num")[0 if tier == "quick" else 1]
        what = sim.pop("what", "simulation")
        seeds = [common.seed()] if tier == "quick" else [common.seed(), common.seed() + 1000003]
        for sd in seeds:
            results.append(rc.run_exec(tr, "%s seed=%d" % (what, sd), simulate={"num": num, "seed": sd}, emit=True,
                                       backends=True, level=2, samplek=sim.pop("samplek", 6) if "samplek" in sim else 6,
                                       **{k: v for k, v in sim.items()}))
    limit = plan.get("limit", (6000, 30000))[0 if tier == "quick" else 1]
    cases = rc.collect_cases(results, limit=limit, tier=tier)
    pre = plan.get("prepare")
    if pre:
        cases = pre(cases, tier)
    nontriv = 0
    for case, out in run_workers(cases, worker, extra):
        stats["cases"] += 1
        st = out["status"]
        stats[st] += 1
        for k, v in out.get("stats", {}).items():
            stats[k] += v
        if out.get("nontrivial"):
            nontriv += 1
        if st == "crash":
            raise common.MachineryError("worker crashed: " + out["detail"])
        if st == "known":
            vd.note_known(out["id"])
        elif st == "violation":
            vd.violation({"kind": out.get("kind", prop), "case": case, "detail": out.get("detail")}, tag=out.get("tag"))
    more = post(vd, stats, tier) if post else {}
    for r_ in more.pop("tlc_runs", []):
        tr.runs.append(r_)
    tr.states += more.pop("states", 0)
    tr.transitions += more.pop("transitions", 0)
    cov = {
        "states": tr.states, "transitions": tr.transitions,
        "traces_validated_against_impl": stats["cases"],
        "samples": [plan.get("sample", rc.short_case)(c) for c in cases[:3]],
        "evaluations": stats["cases"], "distinct_nontrivial": nontriv,
        "rule": plan["rule"], "tlc_runs": tr.runs, "outcomes": dict(stats),
        "known_findings_seen": dict(vd.known), "exhaustive": False,
    }
    cov.update(more)
    common.write_evidence(prop, tier, "model_checking", cov, time.time() - t0, len(vd.violations),
                          assumptions=plan.get("assumptions", ASSUME_REL))
    return vd.report()


# ============================================================================================= C26
@safe
def w_c26(args):
    case, _ = args
    built = relcase.build(case)
    want = [h["ok"] for h in case["hist"]]
    nbad = sum(1 for w in want if not w)
    for i, (g, w) in enumerate(zip(built.accepted, want)):
        if g != w:
            return {"status": "violation", "nontrivial": True, "tag": "%s:%s" % (case["prog"][i][0], "accepted" if g else "rejected"),
                    "detail": {"step": i, "call": case["prog"][i], "builder_accepted": g, "rules_accept": w,
                               "error": built.errors[i]}}
    return {"status": "ok", "nontrivial": nbad > 0, "stats": {"steps_rejected_as_expected": nbad,
                                                              "steps_accepted_as_expected": len(want) - nbad}}


ALLF = ["extend", "wextend", "project", "select_rows", "cols", "order", "stack", "binary"]
BUILDER_LAWS = ["HistOK", "BuilderMeaning", "BuilderAcceptance"]

PLAN_C26 = {
    "mc": [
        dict(what="deviation model: select_columns collapse validated against the source (D2) must break BuilderAcceptance",
             fams=["cols"], rows=0, steps=2, level=1, genbad=True, invariants=BUILDER_LAWS, bdev="BDevSelectCollapse",
             must_violate=("BuilderAcceptance",), **T1),
        dict(what="deviation model: join key check dropped after an unlimited order_rows (D3) must break BuilderAcceptance",
             fams=["order", "stack", "binary"], rows=0, steps=3, level=1, genbad=True, invariants=BUILDER_LAWS,
             bdev="BDevJoinCheck", must_violate=("BuilderAcceptance",), **T12),
    ],
    "emit": [
        dict(what="BuilderAcceptance + all behaviours of 2 calls with rule-breaking steps, one table (every rule-breaking and "
                  "rule-conforming step after every 1-step prefix)", fams=UNARY, rows=0, steps=2, level=1,
             genbad=True, one_in=3, invariants=BUILDER_LAWS, **T1),
        dict(what="BuilderAcceptance + all behaviours of 3 calls around joins with rule-breaking steps, two tables",
             fams=["order", "cols", "stack", "binary"], rows=0, steps=3, level=1, genbad=True, one_in=6, invariants=BUILDER_LAWS, **T12),
    ],
    "sim": dict(what="random behaviours of 4 calls incl. rule-breaking steps", num=(2500, 8000), rows=0, steps=4, genbad=True, **SIMT),
    "rule": "behaviours of Exec.tla with GenBad: after every valid prefix each construction rule is broken in turn "
            "(unknown column, produced column used in the same extend, partition/order column changed, ordered function "
            "without order_by, aggregate with order_by, non-aggregating / too complex project or window expression, missing "
            "join keys, CROSS with keys, requested common-key check, concat of different columns, rename onto an existing "
            "column) next to rule-conforming steps; non-trivial = contains at least one rule-breaking step",
    "limit": (12000, 30000),
    "assumptions": ["the construction rules are the operators *OK of spec/Relational.tla and WellFormed of spec/Exec.tla, written from the "
                    "builder docstrings and the property text", "only acceptance at the builder call is observed; nothing is evaluated"],
}


def check_C26(tier, replay=None):
    return generic_plan("C26", tier, PLAN_C26, w_c26, replay)


CHECKS = {"C26": check_C26}


# ============================================================================================= C06
def _mat_desc(name, frame):
    return relcase.TableDescription(table_name=name, column_names=[str(c) for c in frame.columns])


@safe
def w_c06(args):
    """chained pipeline vs. applying each step to the MATERIALISED result of the previous one (both on the
    real Pandas executor): same acceptance at every call, same table after every accepted call"""
    case, _ = args
    be = relreplay._backends()
    frames = be.frames(case)
    built = relcase.build(case)
    kinds = case["kinds"]
    # stepwise: python stack of materialised frames
    mstack = [frames["t1"]]
    stats = collections.Counter()
    nontrivial = False
    for i, st in enumerate(case["prog"]):
        # (a) one-step pipeline over table descriptions of the materialised stack
        try:
            if st[0] == "table":
                new_stack = mstack + [frames[st[1]]]
                acc = True
            elif st[0] == "dup":
                new_stack = mstack + [mstack[-1]]
                acc = True
            elif st[0] == "swap":
                new_stack = mstack[:-2] + [mstack[-1], mstack[-2]]
                acc = True
            else:
                nbin = 2 if st[0] in ("join", "joinc", "concat") else 1
                srcs = mstack[-nbin:]
                names = ["m%d" % k for k in range(nbin)]
                if nbin == 2 and srcs[0] is srcs[1]:
                    names = ["m0", "m0"]
                descs = [_mat_desc(n, f) for n, f in zip(names, srcs)]
                one = relcase.apply_step(descs, st, {})[-1]
                acc = True
        except Exception as ex:  # noqa: BLE001
            acc = False
            err = "%s: %s" % (type(ex).__name__, str(ex)[:200])
        if acc != built.accepted[i]:
            return {"status": "violation", "nontrivial": True, "tag": "acceptance:" + st[0],
                    "detail": {"step": i, "call": st, "chained_accepts": built.accepted[i], "stepwise_accepts": acc,
                               "chained_error": built.errors[i]}}
        if not acc:
            stats["rejected_both"] += 1
            continue
        if st[0] not in ("table", "dup", "swap"):
            try:
                res = one.eval({n: f for n, f in zip(names, srcs)})
            except Exception as ex:  # noqa: BLE001
                return {"status": "skip", "stats": {"stepwise_raised": 1}, "detail": str(ex)[:200]}
            new_stack = mstack[:-nbin] + [res]
        mstack = new_stack
        # (b) the chained pipeline as it stands after this call
        try:
            got = built.tops[i].eval(frames)
        except Exception as ex:  # noqa: BLE001
            return {"status": "skip", "stats": {"chained_raised": 1}, "detail": str(ex)[:200]}
        a, b = abs_table(got), abs_table(mstack[-1])
        ok, why = same_table(a, b, ordered=case["hist"][i]["ordered"])
        if not ok:
            return {"status": "violation", "nontrivial": True, "tag": "meaning:" + st[0],
                    "detail": {"step": i, "call": st, "why": why, "chained": a, "stepwise": b,
                               "chained_pipeline": str(built.tops[i])}}
        if i > 0 and st[0] not in ("table", "dup", "swap"):
            nontrivial = nontrivial or _dag_len(built.tops[i]) < _dag_len(built.tops[i - 1]) + 1
    # MODEL-DRIFT (informational): does the B model predict the DAG the builder really holds?
    drift = 0
    if case.get("dag") and all(h["ok"] for h in case["hist"]):
        drift = 0 if _shape(built.final) == _norm_shape(case["dag"]) else 1
    stats["model_drift_dag_shape"] = drift
    stats["simplified_by_builder"] = 1 if nontrivial else 0
    return {"status": "ok", "nontrivial": nontrivial, "stats": dict(stats)}


def _dag_len(ops):
    n = 1
    for s in ops.sources:
        n += _dag_len(s)
    return n


_NODE = {"ExtendNode": "extend", "ProjectNode": "project", "SelectRowsNode": "select_rows", "SelectColumnsNode": "select_columns",
         "DropColumnsNode": "drop_columns", "RenameColumnsNode": "rename", "MapColumnsNode": "map_columns", "ConvertRecordsNode": "unpivot", "OrderRowsNode": "order_rows",
         "NaturalJoinNode": "join", "ConcatRowsNode": "concat", "TableDescription": "table"}


def _shape(ops):
    k = _NODE.get(ops.node_name, ops.node_name)
    if k == "table":
        return ["table", ops.table_name]
    if k in ("join", "concat"):
        return [k, _shape(ops.sources[0]), _shape(ops.sources[1])]
    tg = sorted(ops.ops.keys()) if k in ("extend", "project") else []
    return [k, tg, _shape(ops.sources[0])]


def _norm_shape(d):
    if d[0] == "table":
        return ["table", d[1]]
    if d[0] in ("join", "joinc", "concat"):
        return ["join" if d[0] == "joinc" else d[0], _norm_shape(d[1]), _norm_shape(d[2])]
    k = "extend" if d[0] == "wextend" else d[0]
    return [k, sorted(d[1]), _norm_shape(d[2])]


TB = dict(tabcols="MCB_TabCols", colvals="MCB_ColVals")
C06F = ["extend", "extend2", "wextend", "cols", "order"]
PLAN_C06 = {
    "mc": [
        dict(what="BuilderMeaning/BuilderAcceptance: all 3-call sequences of extend / select / drop / order_rows, <= 1 row",
             fams=["extend", "cols", "order"], rows=1, steps=3, level=1, invariants=BUILDER_LAWS, timeout=600, tier=("thorough",), **TB),
        dict(what="BuilderMeaning: all 2-call sequences incl. windowed extends and limits, <= 2 rows",
             fams=["extend", "wextend", "cols", "order"], rows=2, steps=2, level=1, invariants=BUILDER_LAWS, timeout=900,
             tier=("thorough",), **TB),
        dict(what="deviation model: merge with a re-assigned column ignoring the other assignments (D1) must break BuilderMeaning",
             fams=["extend2"], rows=1, steps=2, level=1, invariants=BUILDER_LAWS, bdev="BDevMergeCommon",
             must_violate=("BuilderMeaning",), **TB),
    ],
    "emit": [
        dict(MICRO_W2, invariants=BUILDER_LAWS), dict(micro(2, 10), invariants=BUILDER_LAWS),
        dict(MICRO_WP, invariants=BUILDER_LAWS), dict(MICRO_OO2, invariants=BUILDER_LAWS), dict(MICRO_OJ, invariants=BUILDER_LAWS),
        dict(what="BuilderMeaning/BuilderAcceptance + all 2-call sequences of extend / 2-assignment extend / select / drop / "
                  "order_rows, <= 1 row (sampled)",
             fams=["extend", "extend2", "cols", "order"], rows=1, steps=2, level=1, one_in=40, genbad=True, timeout=200,
             invariants=BUILDER_LAWS, **TB),
        dict(what="BuilderMeaning/BuilderAcceptance + all 3-call sequences of 2-assignment extends and order_rows, <= 1 row (sampled)",
             fams=["extend2", "order"], rows=1, steps=3, level=1, one_in=500, timeout=300, invariants=BUILDER_LAWS, **TB),
    ],
    "sim": dict(what="random pipelines of 4 calls biased to consecutive extends / selections / orderings",
                fams=["extend", "extend2", "wextend", "cols", "order", "select_rows", "stack", "binary"],
                num=(2000, 6000), rows=3, steps=4, genbad=True, **SIMT),
    "rule": "behaviours of Exec.tla; each is built as one chained pipeline and, independently, step by step over table "
            "descriptions of the materialised intermediate results; non-trivial = the builder really simplified "
            "(the DAG did not grow by one node at some call)",
    "limit": (5000, 20000),
    "assumptions": ASSUME_REL + ["both sides of the comparison run on the Pandas executor, so executor deviations cancel; a side that "
                                 "raises at evaluation is counted and not judged (C01/C03 judge executors)"],
}


def check_C06(tier, replay=None):
    return generic_plan("C06", tier, PLAN_C06, w_c06, replay)


CHECKS["C06"] = check_C06


# ============================================================================================= C10
def _perturb(df, col, mode, kind):
    import numpy
    import pandas
    d = df.copy()
    n = d.shape[0]
    if mode == "null":
        d[col] = pandas.Series([None] * n, dtype="str") if kind == "s" else numpy.nan
    else:
        if kind == "s":
            d[col] = pandas.Series(["q%d" % (i % 2) for i in range(n)], dtype="str")
        else:
            d[col] = [float(7 + 3 * i) for i in range(n)]
    return d


@safe
def w_c10(args):
    """perturb every input column that the CODE's columns_used() does not report: the result must not move
    (Pandas and SQLite, each against its own unperturbed result); SQL must run on tables restricted to the
    reported columns; the pipeline rebuilt over narrowed table descriptions must give the same result"""
    case, _ = args
    if not all(h["ok"] for h in case["hist"]):
        return {"status": "skip", "stats": {"has_rejected_step": 1}}
    be = relreplay._backends()
    built = relcase.build(case)
    ops = built.final
    kinds = case["kinds"]
    used = {k: set(v) for k, v in ops.columns_used().items()}
    frames = be.frames(case)
    ordered = case["hist"][-1]["ordered"]
    stats = collections.Counter()
    ref_used = collections.defaultdict(set)
    for t, c in case.get("used", []):
        ref_used[t].add(c)
    for t in used:
        if used[t] - ref_used[t]:
            stats["code_reports_more_than_reference"] += 1
        if ref_used[t] - used[t]:
            stats["code_reports_less_than_reference"] += 1
    base = {}
    try:
        base["pandas"] = abs_table(ops.eval(frames))
    except Exception:  # noqa: BLE001
        stats["pandas_raised"] += 1
    try:
        be.load_sqlite(case, frames=frames)
        base["sqlite"] = abs_table(be.sqlite.read_query(ops))
    except Exception:  # noqa: BLE001
        stats["sqlite_raised"] += 1
    if not base:
        return {"status": "skip", "stats": dict(stats)}
    nontrivial = False
    known_hit = None
    for t in sorted(used):
        cols = case["inp"][t]["cols"]
        for c in cols:
            if c in used[t]:
                continue
            nontrivial = True
            for mode in ("null", "other"):
                pf = dict(frames)
                pf[t] = _perturb(frames[t], c, mode, kinds[c])
                for b in base:
                    try:
                        if b == "pandas":
                            got = abs_table(ops.eval(pf))
                        else:
                            be.load_sqlite(case, frames=pf)
                            got = abs_table(be.sqlite.read_query(ops))
                    except Exception as ex:  # noqa: BLE001
                        err = "%s: %s" % (type(ex).__name__, str(ex)[:300])
                        if b == "pandas" and kinds[c] == "s" and re.search(C10_TYPEGUARD, err, re.S):
                            # the unreported column does influence the outcome - through the known type-guard defect
                            # (a text column whose first cell is null is taken for float; making this column all-null, or
                            # making it text next to an all-null text column of the other table, trips it): known finding
                            known_hit = "pandas_null_only_text_column_type"
                            stats["KF:" + known_hit] += 1
                            continue
                        return {"status": "violation", "nontrivial": True, "tag": "raise:" + b,
                                "detail": {"table": t, "column": c, "mode": mode, "backend": b, "reported": {k: sorted(v) for k, v in used.items()},
                                           "error": err}}
                    ok, why = same_table(got, base[b], ordered=ordered)
                    stats["perturbations"] += 1
                    if not ok:
                        return {"status": "violation", "nontrivial": True, "tag": "influence:" + b,
                                "detail": {"table": t, "column": c, "mode": mode, "backend": b, "why": why,
                                           "reported": {k: sorted(v) for k, v in used.items()},
                                           "base": base[b], "perturbed": got, "pipeline": str(ops)}}
    # restriction to the reported columns
    rf = {t: (frames[t][[c for c in case["inp"][t]["cols"] if c in used.get(t, set())]] if t in used else frames[t]) for t in frames}
    if "sqlite" in base and all(rf[t].shape[1] > 0 for t in used):
        try:
            be.load_sqlite(case, frames=rf)
            got = abs_table(be.sqlite.read_query(ops))
            ok, why = same_table(got, base["sqlite"], ordered=ordered)
        except Exception as ex:  # noqa: BLE001
            ok, why, got = False, "%s: %s" % (type(ex).__name__, str(ex)[:300]), None
        stats["sql_on_restricted_tables"] += 1
        if not ok:
            return {"status": "violation", "nontrivial": True, "tag": "restricted-sql",
                    "detail": {"why": why, "reported": {k: sorted(v) for k, v in used.items()}, "got": got,
                               "base": base["sqlite"], "pipeline": str(ops)}}
    if "pandas" in base and all(rf[t].shape[1] > 0 for t in used):
        ncase = dict(case)
        ncase["inp"] = {t: ({"cols": [c for c in tb["cols"] if c in used[t]], "rows": tb["rows"]} if t in used else tb)
                        for t, tb in case["inp"].items()}
        nb = relcase.build(ncase)
        if all(nb.accepted):
            try:
                got = abs_table(nb.final.eval(rf))
                ok, why = same_table(got, base["pandas"], ordered=ordered)
            except Exception as ex:  # noqa: BLE001
                ok, why, got = False, "%s: %s" % (type(ex).__name__, str(ex)[:300]), None
            stats["narrowed_rebuilds"] += 1
            if not ok:
                return {"status": "violation", "nontrivial": True, "tag": "narrowed",
                        "detail": {"why": why, "reported": {k: sorted(v) for k, v in used.items()}, "got": got, "base": base["pandas"]}}
        else:
            stats["narrowed_rebuild_not_possible"] += 1
    if known_hit:
        return {"status": "known", "id": known_hit, "nontrivial": nontrivial, "stats": dict(stats)}
    return {"status": "ok", "nontrivial": nontrivial, "stats": dict(stats)}


C10_TYPEGUARD = r"can't compare <class 'float'> to <class 'str'>|incompatible column types"
IRR = ["HistOK", "Irrelevance"]
PLAN_C10 = {
    "mc": [
        dict(what="Irrelevance of columns outside the reference Used set: every unary step, one table, <= 1 row", fams=UNARY, rows=1,
             steps=1, level=1, invariants=IRR, timeout=300, tier=("quick",), **T1),
        dict(what="Irrelevance of columns outside the reference Used set: every unary step, one table, <= 2 rows", fams=UNARY, rows=2,
             steps=1, level=1, invariants=IRR, timeout=600, tier=("thorough",), **T1),
        dict(what="Irrelevance: all 2-call pipelines, one table, <= 1 row", fams=UNARY, rows=1, steps=2, level=1, invariants=IRR,
             timeout=900, tier=("thorough",), **TB),
        dict(what="Irrelevance: join/concat of two tables, <= 1 row", fams=["stack", "binary"], rows=1, steps=2, level=1, invariants=IRR,
             timeout=300, **T12),
    ],
    "emit": [
        dict(what="all 2-call pipelines, one table, <= 1 row (sampled)", fams=UNARY, rows=1, steps=2, level=1, one_in=150, timeout=900,
             tier=("thorough",), **TB),
        dict(what="join/concat of two tables, <= 1 row (sampled)", fams=["stack", "binary"], rows=1, steps=2, level=2, one_in=10, **T12),
        dict(what="join (same and differently named keys) followed by a select / drop / rename, <= 1 row (sampled)",
             fams=["stack", "binary", "cols"], rows=1, steps=3, level=2, one_in=60, timeout=600, **T12),
    ],
    "sim": dict(what="random pipelines of 4 calls over 2 tables of <= 3 rows", num=(1500, 5000), rows=3, steps=4, **SIMT),
    "rule": "behaviours of Exec.tla; for each, every input column the code's columns_used() does not report is set to nulls and to "
            "other values (Pandas and SQLite must return their unperturbed result), the SQL is run on tables restricted to the "
            "reported columns, and the pipeline rebuilt over narrowed table descriptions is evaluated on restricted frames; "
            "non-trivial = at least one column of a used table is unreported",
    "limit": (3000, 12000),
    "assumptions": ASSUME_REL + ["each backend is compared with its own unperturbed result, so executor deviations cancel",
                                 "narrowed rebuilds are possible only when no step names a removed column in a select/drop list"],
}


def check_C10(tier, replay=None):
    return generic_plan("C10", tier, PLAN_C10, w_c10, replay)


CHECKS["C10"] = check_C10


# ============================================================================================= C19
def _snap_pd(df):
    return {"copy": df.copy(deep=True), "cols": list(df.columns), "dtypes": [str(t) for t in df.dtypes],
            "index": df.index.copy(deep=True)}


def _same_pd(df, s):
    import pandas
    if list(df.columns) != s["cols"]:
        return "columns changed: %s -> %s" % (s["cols"], list(df.columns))
    if [str(t) for t in df.dtypes] != s["dtypes"]:
        return "dtypes changed: %s -> %s" % (s["dtypes"], [str(t) for t in df.dtypes])
    if not df.index.equals(s["index"]) or type(df.index) is not type(s["index"]) or str(df.index.dtype) != str(s["index"].dtype):
        return "index changed: %s -> %s" % (list(s["index"]), list(df.index))
    if not df.equals(s["copy"]):
        return "values changed"
    return None


@safe
def w_c19(args):
    case, _ = args
    if not all(h["ok"] for h in case["hist"]):
        return {"status": "skip"}
    import polars
    be = relreplay._backends()
    built = relcase.build(case, record_text=True)
    ops = built.final
    ordered = case["hist"][-1]["ordered"]
    stats = collections.Counter()
    # a pipeline the caller kept must not be rewritten by calls that build a longer pipeline on top of it
    for i, (top, text) in enumerate(zip(built.tops, built.texts)):
        if str(top) != text:
            return {"status": "violation", "nontrivial": True, "tag": "pipeline-rewritten-by-later-call",
                    "detail": {"step": i, "why": "the pipeline kept after call %d prints differently once later calls were made" % (i + 1),
                               "before": text, "after": str(top)}}
    ops_text = str(ops)
    succeeded = set()
    single = len(ops.get_tables()) == 1 and "t1" in ops.get_tables()
    for variant in (None, "stridx", "perm_keepidx"):
        frames = be.frames(case, variant=variant)
        snaps = {t: _snap_pd(f) for t, f in frames.items()}
        calls = [("eval", lambda: ops.eval(frames))]
        if single:
            calls.append(("transform", lambda: ops.transform(frames["t1"])))
            calls.append((">>", lambda: frames["t1"] >> ops))
            calls.append(("act_on", lambda: ops.act_on(frames["t1"])))
        results = []
        for name, f in calls:
            try:
                res = f()
                succeeded.add(name)
            except Exception as ex:  # noqa: BLE001
                stats["raised:" + name] += 1
                res = None
                if name in succeeded:
                    return {"status": "violation", "nontrivial": True, "tag": "repeat-raised:" + name,
                            "detail": {"call": name, "variant": variant, "pipeline": ops_text,
                                       "why": "an evaluation that succeeded before now raises %s: %s" % (type(ex).__name__, str(ex)[:200])}}
            if str(ops) != ops_text:
                return {"status": "violation", "nontrivial": True, "tag": "pipeline-rewritten-by-evaluation:" + name,
                        "detail": {"call": name, "variant": variant, "before": ops_text, "after": str(ops),
                                   "why": "evaluating the pipeline changed the pipeline object"}}
            for t, fr in frames.items():
                why = _same_pd(fr, snaps[t])
                if why:
                    return {"status": "violation", "nontrivial": True, "tag": "mutated:" + name,
                            "detail": {"call": name, "variant": variant, "table": t, "why": why, "pipeline": str(ops)}}
            if res is not None:
                for t, fr in frames.items():
                    if res is fr:
                        return {"status": "violation", "nontrivial": True, "tag": "aliased:" + name,
                                "detail": {"call": name, "variant": variant, "table": t, "why": "the result IS the caller's frame"}}
                results.append((name, abs_table(res)))
            stats["calls"] += 1
        for (n1, r1), (n2, r2) in zip(results, results[1:]):
            ok, why = same_table(r2, r1, ordered=ordered)
            if not ok:
                return {"status": "violation", "nontrivial": True, "tag": "repeat",
                        "detail": {"first": n1, "second": n2, "variant": variant, "why": why, "r1": r1, "r2": r2, "pipeline": str(ops)}}
        # the result must not share memory with the inputs: writing to it must leave them alone
        if results:
            try:
                res = ops.eval(frames)
                for c in list(res.columns):
                    try:
                        res[c] = None
                    except Exception:  # noqa: BLE001
                        pass
                for t, fr in frames.items():
                    why = _same_pd(fr, snaps[t])
                    if why:
                        return {"status": "violation", "nontrivial": True, "tag": "shared-memory",
                                "detail": {"variant": variant, "table": t, "why": "overwriting the RESULT changed the input: " + why}}
            except Exception:  # noqa: BLE001
                pass
    # Polars (eager): frames are immutable values, but the executor must not hand back a modified input either
    pfr = be.polars_frames(case)
    psn = {t: f.clone() for t, f in pfr.items()}
    for rep in range(2):
        try:
            r = ops.eval(pfr)
        except Exception:  # noqa: BLE001
            stats["polars_raised"] += 1
            break
        for t, f in pfr.items():
            if not f.equals(psn[t]) or f.schema != psn[t].schema or f.columns != psn[t].columns:
                return {"status": "violation", "nontrivial": True, "tag": "polars-mutated",
                        "detail": {"table": t, "why": "polars input changed", "pipeline": str(ops)}}
    return {"status": "ok", "nontrivial": nt_rows(case, 1) and len(case["prog"]) >= 2, "stats": dict(stats)}


PLAN_C19 = {
    "mc": [dict(what="InputsFrozen (no step of the machine changes the caller's tables) + laws, one table, <= 1 row, every unary step",
                fams=UNARY, rows=1, steps=1, level=1, properties=["InputsFrozen"], **T1)],
    "emit": [dict(what="all 1-step pipelines over all tables with <= 1 row", fams=UNARY, rows=1, steps=1, level=1, **T1),
             dict(what="join/concat of two tables, <= 1 row (sampled)", fams=["stack", "binary"], rows=1, steps=2, level=2, one_in=10, **T12)],
    "sim": dict(what="random pipelines of 4 calls over 2 tables of <= 3 rows", num=(1200, 5000), rows=3, steps=4, **SIMT),
    "rule": "behaviours of Exec.tla; each pipeline is evaluated through eval / transform / >> / act_on on Pandas frames with default, "
            "text and shuffled-integer indexes and on Polars frames; before/after snapshots of values, dtypes, columns and index; "
            "consecutive evaluations compared; the result is overwritten to detect shared memory; "
            "non-trivial = some input has rows and the pipeline has at least two calls",
    "limit": (3000, 10000),
    "assumptions": ["ex() is the same code path as eval() on the frames stored in the description (view_representations.ex) and is "
                    "exercised through eval", "pipelines with random-number methods are not generated"],
}


def check_C19(tier, replay=None):
    return generic_plan("C19", tier, PLAN_C19, w_c19, replay)


CHECKS["C19"] = check_C19


# ============================================================================================= C15
_INTERNAL = None


def internal_names():
    """names the executors and the SQL generator use for their own purposes, read from /repo's sources at check time"""
    global _INTERNAL
    if _INTERNAL is not None:
        return _INTERNAL
    cols, suffixes, tabs = set(), set(), set()
    for fn in ("pandas_base.py", "polars_model.py", "sql_model.py", "near_sql.py", "SQLite.py", "view_representations.py"):
        try:
            src = open(os.path.join(common.REPO, "data_algebra", fn)).read()
        except OSError:
            continue
        for m in re.finditer(r"""["']([A-Za-z_][A-Za-z0-9_]*)["']""", src):
            s = m.group(1)
            low = s.lower()
            if ("temp" in low or "tmp" in low or low.startswith("_da_") or low.startswith("data_algebra_") or low.startswith("_data_")
                    or low.startswith("da_")):
                if s.startswith("_") and ("tmp" in low or "temp" in low) and not low.startswith("_da_") and not low.startswith("_data_"):
                    suffixes.add(s)
                else:
                    cols.add(s)
        for m in re.finditer(r"""view_name\s*=\s*f?["']([A-Za-z_]+)""", src):
            tabs.add(m.group(1))
        for m in re.finditer(r"""["']([a-z_]+_)\{""", src):
            tabs.add(m.group(1).rstrip("_"))
    # names that are DEFAULTS of builder arguments (e.g. concat_rows(id_column="source_name")): the library may use them itself
    defaults = set()
    try:
        import inspect
        import data_algebra.view_representations as vr
        for _, fn in inspect.getmembers(vr.ViewRepresentation, inspect.isfunction):
            for prm in inspect.signature(fn).parameters.values():
                if isinstance(prm.default, str) and re.fullmatch(r"[A-Za-z_][A-Za-z0-9_]{2,}", prm.default):
                    defaults.add(prm.default)
    except Exception:  # noqa: BLE001
        pass
    tabs |= {"extend", "project", "select_rows", "select_columns", "drop_columns", "order_rows", "rename_columns", "natural_join",
             "concat_rows", "convert_records", "table_reference", "join_source_left", "join_source_right", "concat_rows_a", "concat_rows_b"}
    _INTERNAL = {"cols": sorted(cols), "suffixes": sorted(suffixes), "tabs": sorted(tabs), "defaults": sorted(defaults)}
    return _INTERNAL


def namings_for(case, k, rng):
    """k injective renamings of the case's tables and columns that hit internal names"""
    pool = internal_names()
    allcols = sorted({c for tb in case["inp"].values() for c in tb["cols"]} |
                     {c for h in case["hist"] for c in h["top"]["cols"]} | _step_cols(case["prog"]))
    tabs = sorted(case["inp"])
    out = [relcase.Naming(cols={c: "u_" + c for c in allcols}, tabs={t: "tab_" + t for t in tabs})]   # ordinary names only
    out[0].injected = None
    # ordinary but not bare identifiers: operators, digits, keywords, spaces (quoted names must still work)
    odd = ["a-b", "2", "group", "select", "my col", "x.y", "Order", "a+b", "1st"]
    # ... only for columns that never occur inside expression TEXT (there a name has to be an identifier)
    free = [c for c in allcols if c not in _text_cols(case["prog"])]
    if free:
        cm2 = {c: "u_" + c for c in allcols}
        for c, o in zip(rng.sample(free, min(2, len(free))), rng.sample(odd, 2)):
            cm2[c] = o
        nm2 = relcase.Naming(cols=cm2, tabs={t: "tab_" + t for t in tabs})
        nm2.injected = None
        out.append(nm2)
    # a STRUCTURAL column (join key, group / partition / order key) takes the name of a builder-argument default
    keycols = sorted(_key_cols(case["prog"]) & set(allcols))
    if keycols and pool.get("defaults"):
        cm3 = {c: "u_" + c for c in allcols}
        inj = pool["defaults"][int(relreplay.case_hash(case), 16) % len(pool["defaults"])]
        cm3[keycols[int(relreplay.case_hash(case), 16) % len(keycols)]] = inj
        if len(set(cm3.values())) == len(cm3):
            nm3 = relcase.Naming(cols=cm3, tabs={t: "tab_" + t for t in tabs})
            nm3.injected = inj
            out.append(nm3)
    for _ in range(k):
        cm = {c: "u_" + c for c in allcols}
        tm = {t: "tab_" + t for t in tabs}
        mode = rng.randrange(3)
        if mode == 0 and pool["cols"]:
            inj = rng.choice(pool["cols"])
            cm[rng.choice(allcols)] = inj
        elif mode == 1 and pool["suffixes"] and len(allcols) >= 2:
            a, b = rng.sample(allcols, 2)
            # half of the time the stem is another column (a real suffix collision), else a fresh stem
            stem = cm[a] if rng.random() < 0.5 else "fresh_stem"
            inj = stem + rng.choice(pool["suffixes"])
            cm[b] = inj
        else:
            inj = "%s_%d" % (rng.choice(pool["tabs"]).rstrip("_"), rng.randrange(0, 4))
            tm[rng.choice(tabs)] = inj
        if len(set(cm.values())) != len(cm) or len(set(tm.values())) != len(tm):
            continue
        nm = relcase.Naming(cols=cm, tabs=tm)
        nm.injected = inj
        out.append(nm)
    return out


def _key_cols(prog):
    """columns that play a structural role in some call: join keys, group / partition / order keys"""
    acc = set()
    for st in prog:
        if st[0] in ("join", "joinc"):
            for pr in st[2]:
                acc.update(pr)
        elif st[0] == "project":
            acc.update(st[2])
        elif st[0] == "wextend":
            acc.update(st[2])
            acc.update(st[3])
        elif st[0] == "order_rows":
            acc.update(st[1])
    return acc


def _expr_cols(e, acc):
    if isinstance(e, list):
        if len(e) == 2 and e[0] == "c":
            acc.add(e[1])
        for x in e:
            _expr_cols(x, acc)


def _text_cols(prog):
    """columns that are written inside expression text by the harness (extend / select_rows expressions, aggregate sources)"""
    acc = set()
    for st in prog:
        if st[0] == "extend":
            for a in st[1]:
                _expr_cols(a[1], acc)
        elif st[0] == "select_rows":
            _expr_cols(st[1], acc)
        elif st[0] in ("wextend", "project"):
            for a in st[1]:
                if a[2] != "":
                    acc.add(a[2])
    return acc


def _step_cols(prog):
    s = set()

    def walk(x):
        if isinstance(x, list):
            for y in x:
                walk(y)
        elif isinstance(x, str):
            s.add(x)
    for st in prog:
        walk(st[1:])
    keep = set()
    for x in s:
        if re.fullmatch(r"[a-z][a-z0-9]*", x) and x not in ("b", "u", "c", "k", "t", "ks", "in", "if_else", "where", "and", "or",
                                                               "not", "neg", "abs", "sign", "is_null", "is_bad", "maximum", "minimum",
                                                               "fmax", "fmin", "coalesce", "sum", "max", "min", "count", "size", "shift",
                                                               "cumsum", "cummax", "cummin", "nunique", "t1", "t2", "nonagg", "complex",
                                                               "argexpr"):
            keep.add(x)
    return keep


def c15_classify(backend, nm, err, case):
    """known scratch-name captures (D17), identified by backend and the internal name involved"""
    inj = getattr(nm, "injected", None)
    if inj is None:
        return None
    for fid, bk, pat in C15_KNOWN:
        if backend in bk and re.fullmatch(pat, inj):
            if fid == "pandas_join_suffix_capture":
                # the known defect is a collision with the suffixed copy of ANOTHER column: the stem must be a column
                stem = re.sub(r"_tmp_right_col$", "", inj)
                if stem not in set(nm.cols.values()):
                    continue
            return fid
    return None


C15_KNOWN = []      # filled from known_findings.json (kind = "capture")


@safe
def w_c15(args):
    case, _ = args
    if not all(h["ok"] for h in case["hist"]):
        return {"status": "skip"}
    be = relreplay._backends()
    rng = random.Random(relreplay.case_hash(case))
    ordered = case["hist"][-1]["ordered"]
    base = {}
    built0 = relcase.build(case)
    for b in ("pandas", "sqlite", "polars"):
        try:
            base[b] = abs_table(relreplay.eval_backend(be, b, built0.final, case, relcase.IDENT, [False]))
        except Exception:  # noqa: BLE001
            pass
    stats = collections.Counter()
    known = None
    for nm in namings_for(case, 3, rng):
        try:
            built = relcase.build(case, nm)
        except Exception as ex:  # noqa: BLE001
            return {"status": "crash", "detail": "build under naming failed: %s" % ex}
        if built.accepted != built0.accepted:
            return {"status": "violation", "nontrivial": True, "tag": "acceptance-under-renaming",
                    "detail": {"naming": [nm.cols, nm.tabs], "accepted": built.accepted, "errors": built.errors}}
        for b in base:
            loaded = [False]
            try:
                got = abs_table(relreplay.eval_backend(be, b, built.final, case, nm, loaded), nm)
                ok, why = same_table(got, base[b], ordered=ordered)
            except Exception as ex:  # noqa: BLE001
                ok, why, got = False, "raised %s: %s" % (type(ex).__name__, str(ex)[:300]), None
            stats["evaluations"] += 1
            if not ok:
                fid = c15_classify(b, nm, why, case)
                if fid:
                    known = fid
                    stats["KF:" + fid] += 1
                    continue
                return {"status": "violation", "nontrivial": True, "tag": "%s" % b,
                        "detail": {"backend": b, "naming": [nm.cols, nm.tabs], "injected": getattr(nm, "injected", None),
                                   "why": why, "got": got, "base": base[b],
                                   "pipeline": str(built.final)}}
    if known:
        return {"status": "known", "id": known, "nontrivial": True, "stats": dict(stats)}
    return {"status": "ok", "nontrivial": len(base) > 0 and nt_rows(case, 1), "stats": dict(stats)}


PLAN_C15 = {
    "mc": [dict(what="laws of the reference (names never occur in the semantics except as keys), one table, <= 1 row", fams=UNARY, rows=1,
                steps=1, level=1, **T1)],
    "emit": [dict(what="all 1-step pipelines over all tables with <= 1 row", fams=UNARY, rows=1, steps=1, level=1, **T1),
             dict(what="join/concat of two tables, <= 1 row (sampled)", fams=["stack", "binary"], rows=1, steps=2, level=2, one_in=6, **T12)],
    "sim": dict(what="random pipelines of 3 calls over 2 tables of <= 3 rows", num=(1200, 5000), rows=3, steps=3, **SIMT),
    "rule": "behaviours of Exec.tla; each is rebuilt under 3 injective renamings of all tables and columns drawn from the names the "
            "executors and the SQL generator use internally (read from /repo's sources at check time: scratch columns, join "
            "suffixes, generated view / alias names) and must give, after renaming back, the result of the unrenamed pipeline on "
            "the same backend (Pandas, SQLite, Polars); non-trivial = some input has rows",
    "limit": (3000, 10000),
    "assumptions": ["each backend is compared with itself under the identity naming, so executor deviations cancel",
                    "names containing the identifier quote character are outside the property"],
}


def check_C15(tier, replay=None):
    global C15_KNOWN
    C15_KNOWN = [(f["id"], f["backend"] if isinstance(f["backend"], list) else [f["backend"]], f["name_pattern"])
                 for f in common.load_findings().get("findings", []) if f.get("kind") == "capture"]
    return generic_plan("C15", tier, PLAN_C15, w_c15, replay)


CHECKS["C15"] = check_C15


# ============================================================================================= C07
def _split_points(case):
    """indices k (1 <= k < n) such that after k calls exactly one sub-pipeline is open"""
    return [k for k in range(1, len(case["prog"])) if case["hist"][k - 1]["depth"] == 1]


def _build_suffix(case, k, mid_cols, upto=None):
    descs = relcase.table_descs(case)
    descs["mid"] = relcase.TableDescription(table_name="mid", column_names=list(mid_cols))
    stack = [descs["mid"]]
    for st in case["prog"][k:upto]:
        stack = relcase.apply_step(stack, st, descs)
    return stack[-1]


@safe
def w_c07(args):
    case, _ = args
    if not all(h["ok"] for h in case["hist"]):
        return {"status": "skip"}
    ks = _split_points(case)
    if not ks or case["hist"][-1]["depth"] != 1:
        return {"status": "skip", "stats": {"no_split_point": 1}}
    import data_algebra.arrow as arrow
    be = relreplay._backends()
    frames = be.frames(case)
    whole = relcase.build(case).final
    ordered = case["hist"][-1]["ordered"]
    try:
        want_whole = abs_table(whole.eval(frames))
    except Exception:  # noqa: BLE001
        return {"status": "skip", "stats": {"whole_raised": 1}}
    stats = collections.Counter()
    rng = random.Random(relreplay.case_hash(case))
    for k in rng.sample(ks, min(2, len(ks))):
        a = relcase.build(case, upto=k).final
        try:
            b = _build_suffix(case, k, a.column_names)
        except Exception as ex:  # noqa: BLE001
            return {"status": "violation", "nontrivial": True, "tag": "suffix-rejected",
                    "detail": {"k": k, "why": "the suffix is rejected on a table with the prefix's columns: %s" % ex}}
        # sequential application with the real code
        try:
            mid = a.eval(frames)
            fr2 = dict(frames)
            fr2["mid"] = mid
            want = abs_table(b.eval(fr2))
        except Exception:  # noqa: BLE001
            stats["sequential_raised"] += 1
            continue
        ok, why = same_table(want, want_whole, ordered=ordered)
        if not ok:
            return {"status": "violation", "nontrivial": True, "tag": "chained-vs-sequential",
                    "detail": {"k": k, "why": why, "sequential": want, "chained": want_whole}}
        forms = {"replace_leaves": lambda: b.replace_leaves({"mid": a}),
                 "act_on_map": lambda: b.act_on({"mid": a}),
                 "map >> b": lambda: {"mid": a} >> b}
        single_b = len(b.get_tables()) == 1
        single_a = len(a.get_tables()) == 1
        if single_b:
            forms["a >> b"] = lambda: a >> b
        if single_a or True:
            forms["arrow"] = lambda: (arrow.DataOpArrow(a, free_table_key="t1") >> arrow.DataOpArrow(b, free_table_key="mid")).pipeline
        for name, f in forms.items():
            try:
                comp = f()
                if not hasattr(comp, "eval"):
                    raise TypeError("composition returned %s" % type(comp).__name__)
                got = abs_table(comp.eval(frames))
                ok, why = same_table(got, want, ordered=ordered)
            except Exception as ex:  # noqa: BLE001
                ok, why, got = False, "raised %s: %s" % (type(ex).__name__, str(ex)[:300]), None
            stats["compositions"] += 1
            if not ok:
                return {"status": "violation", "nontrivial": True, "tag": name,
                        "detail": {"k": k, "form": name, "why": why, "composed": got, "sequential": want, "a": str(a), "b": str(b)}}
        # a map of TWO pipelines (simultaneous substitution): b also reads a raw table T, which a may read too; T is
        # replaced by "the first row of T" and mid by a - a's own T leaf must stay the raw table
        others = sorted(t for t in b.get_tables().keys() if t != "mid")
        if others:
            T = others[0]
            dT = b.get_tables()[T]
            p2 = dT.order_rows(list(dT.column_names), limit=1)
            try:
                fr3 = dict(frames)
                fr3["mid"] = mid
                fr3[T] = p2.eval(frames)
                want2 = abs_table(b.eval(fr3))
            except Exception:  # noqa: BLE001
                want2 = None
                stats["map2_sequential_raised"] += 1
            if want2 is not None:
                descs_b = dict(b.get_tables())
                for mname, m in (("{mid, T}", {"mid": a, T: p2}), ("{T, mid}", {T: p2, "mid": a})):
                    forms2 = {"replace_leaves": lambda m=m: b.replace_leaves(m), "act_on": lambda m=m: b.act_on(m),
                              "map >> b": lambda m=m: m >> b,
                              "eval(map of pipelines)": lambda m=m: b.eval({**descs_b, **m})}
                    for name, f in forms2.items():
                        try:
                            comp = f()
                            if not hasattr(comp, "eval"):
                                raise TypeError("composition returned %s" % type(comp).__name__)
                            got = abs_table(comp.eval(frames))
                            ok, why = same_table(got, want2, ordered=ordered)
                        except Exception as ex:  # noqa: BLE001
                            ok, why, got = False, "raised %s: %s" % (type(ex).__name__, str(ex)[:300]), None
                        stats["compositions_map2"] += 1
                        if not ok:
                            return {"status": "violation", "nontrivial": True, "tag": "map2:" + name,
                                    "detail": {"k": k, "form": name, "map": mname, "why": why, "composed": got, "sequential": want2,
                                               "a": str(a), "b": str(b), "T": T}}
        # dom / cod of the composed arrow
        try:
            arr = arrow.DataOpArrow(a, free_table_key="t1") >> arrow.DataOpArrow(b, free_table_key="mid")
            dom_ok = sorted(arr.incoming_columns) == sorted(case["inp"]["t1"]["cols"])
            cod_ok = sorted(arr.outgoing_columns) == sorted(case["hist"][-1]["top"]["cols"])
            dom2 = sorted(arr.dom().pipeline.column_names) == sorted(case["inp"]["t1"]["cols"])
            cod2 = sorted(arr.cod().pipeline.column_names) == sorted(case["hist"][-1]["top"]["cols"])
            if not (dom_ok and cod_ok and dom2 and cod2):
                return {"status": "violation", "nontrivial": True, "tag": "dom-cod",
                        "detail": {"k": k, "incoming": arr.incoming_columns, "outgoing": arr.outgoing_columns}}
        except Exception as ex:  # noqa: BLE001
            return {"status": "violation", "nontrivial": True, "tag": "arrow-raised", "detail": {"k": k, "why": str(ex)[:300]}}
    # associativity on two split points
    if len(ks) >= 2:
        k1, k2 = sorted(rng.sample(ks, 2))
        try:
            a = relcase.build(case, upto=k1).final
            b = _build_suffix(case, k1, a.column_names, upto=k2)
            c = _build_suffix(case, k2, b.column_names)
            left = c.replace_leaves({"mid": b.replace_leaves({"mid": a})})
            right = c.replace_leaves({"mid": b}).replace_leaves({"mid": a})
            r1, r2 = abs_table(left.eval(frames)), abs_table(right.eval(frames))
            ok, why = same_table(r1, r2, ordered=ordered)
            ok2, why2 = same_table(r1, want_whole, ordered=ordered)
            stats["associativity_checks"] += 1
            if not (ok and ok2):
                return {"status": "violation", "nontrivial": True, "tag": "associativity",
                        "detail": {"k1": k1, "k2": k2, "why": why or why2, "left": r1, "right": r2, "whole": want_whole}}
        except Exception as ex:  # noqa: BLE001
            stats["associativity_raised"] += 1
    return {"status": "ok", "nontrivial": stats["compositions"] > 0, "stats": dict(stats)}


PLAN_C07 = {
    "mc": [
        dict(what="BuilderMeaning: re-running builder calls on top of an existing DAG (what replace_leaves does) keeps the meaning; "
                  "all 2-call sequences, <= 1 row", fams=["extend", "extend2", "cols", "order"], rows=1, steps=2, level=1,
             invariants=BUILDER_LAWS, timeout=200, **TB),
    ],
    "emit": [
        MICRO_W2, micro(2, 10), MICRO_WP, MICRO_OO2, MICRO_OJ,
        dict(what="a later part reads the table an earlier part reads (extend z=o+1 | x=x+1, table t1 again, concat | inner join): "
                  "every 3- and 4-call behaviour over all tables of <= 2 rows (cut after the extend: the suffix has two leaves, "
                  "a map of two pipelines is substituted)",
             fams=["extend", "stack1", "binary"], rows=2, steps=4, level=0, timeout=300, quota=(400, 1500), **TB),
        dict(what="the same, 3 calls", fams=["extend", "stack1", "binary"], rows=2, steps=3, level=0, timeout=300, quota=(400, 1500), **TB),
        dict(what="all 2-call unary pipelines, one table, <= 1 row (sampled)", fams=UNARY, rows=1, steps=2, level=1, one_in=150, timeout=600, **TB),
    ],
    "sim": dict(what="random pipelines of 4 calls over 2 tables of <= 3 rows", num=(2000, 6000), rows=3, steps=4, **SIMT),
    "rule": "behaviours of Exec.tla are cut at points where one sub-pipeline is open: a = the calls before, b = the calls after, rebuilt "
            "over a table description with a's columns; b.replace_leaves, b.act_on(map), map >> b, a >> b and DataOpArrow "
            "composition must all evaluate to b applied to the materialised result of a (and to the chained pipeline); two cuts "
            "give the associativity check; dom/cod of the composed arrow are compared with the reference columns; "
            "non-trivial = at least one composition was evaluated",
    "limit": (3000, 12000),
    "assumptions": ASSUME_REL + ["all sides run on the Pandas executor; a side that raises at evaluation is counted, not judged"],
}


def check_C07(tier, replay=None):
    return generic_plan("C07", tier, PLAN_C07, w_c07, replay)


CHECKS["C07"] = check_C07


# ============================================================================================= C04
_MODELS = None


def _models():
    global _MODELS
    if _MODELS is None:
        import data_algebra.SQLite
        import data_algebra.PostgreSQL
        m = {}
        for merges in (True, False):
            a = data_algebra.SQLite.SQLiteModel()
            a.allow_extend_merges = merges
            b = data_algebra.PostgreSQL.PostgreSQLModel()
            b.allow_extend_merges = merges
            m[("sqlite", merges)] = a
            m[("pg", merges)] = b
        _MODELS = m
    return _MODELS


def _option_grid(full):
    from data_algebra.sql_format_options import SQLFormatOptions
    grid = []
    if full:
        for uw, an, ic, ce in itertools.product((True, False), repeat=4):
            for ind in (" ", "\t "):
                grid.append(dict(use_with=uw, annotate=an, initial_commas=ic, use_cte_elim=ce, sql_indent=ind))
    else:
        grid = [dict(use_with=True, annotate=True, initial_commas=False, use_cte_elim=False, sql_indent=" "),
                dict(use_with=True, annotate=False, initial_commas=True, use_cte_elim=True, sql_indent="\t "),
                dict(use_with=False, annotate=True, initial_commas=True, use_cte_elim=False, sql_indent=" "),
                dict(use_with=False, annotate=False, initial_commas=False, use_cte_elim=True, sql_indent=" "),
                dict(use_with=True, annotate=True, initial_commas=False, use_cte_elim=True, sql_indent=" ")]
    return [(g, SQLFormatOptions(warn_on_method_support=False, warn_on_novel_methods=False, **g)) for g in grid]


def c04_interesting(case):
    """shared sub-pipeline (dup) or consecutive extends: the shapes CTE elimination and extend merging act on"""
    ops = [st[0] for st in case["prog"]]
    if "dup" in ops:
        return True
    return any(a in ("extend", "wextend") and b in ("extend", "wextend") for a, b in zip(ops, ops[1:]))


@safe
def w_c04(args):
    case, extra = args
    if not all(h["ok"] for h in case["hist"]):
        return {"status": "skip"}
    be = relreplay._backends()
    ops = relcase.build(case).final
    ordered = case["hist"][-1]["ordered"]
    frames = be.frames(case)
    be.load_sqlite(case, frames=frames)
    stats = collections.Counter()
    full = (extra or {}).get("full") or c04_interesting(case)
    grid = _option_grid(full)
    bases = {}
    seen = {}
    for (dialect, merges), model in sorted(_models().items()):
        if dialect == "pg" and not rc.pg_fragment(case):
            continue
        for g, opt in grid:
            try:
                sql = model.to_sql(ops, sql_format_options=opt)
            except Exception as ex:  # noqa: BLE001
                seen_key = ("raise", dialect, type(ex).__name__)
                stats["to_sql_raised:%s" % dialect] += 1
                sql = None
                res = ("raised", "%s: %s" % (type(ex).__name__, str(ex)[:200]))
            if sql is not None:
                if sql in seen:
                    continue
                try:
                    res = ("ok", abs_table(be.run_sql(sql)))
                except Exception as ex:  # noqa: BLE001
                    res = ("raised", "%s: %s" % (type(ex).__name__, str(ex)[:300]))
                seen[sql] = res
                stats["statements_executed"] += 1
            desc = dict(g, dialect=dialect, extend_merges=merges)
            if res[0] == "raised":
                # raising under EVERY option combination of this dialect is not an options problem (C01/C02 judge it)
                stats["raised:%s" % dialect] += 1
                rkey = "raised_" + dialect
                seen.setdefault(rkey, []).append(desc) if isinstance(seen.get(rkey, []), list) else None
                continue
            # the options must not matter WITHIN a dialect (differences between dialects are C01 / C02 / C16 matters)
            if dialect not in bases:
                bases[dialect] = (res[1], desc)
                continue
            base, base_desc = bases[dialect]
            ok, why = same_table(res[1], base, ordered=ordered)
            if not ok:
                return {"status": "violation", "nontrivial": True, "tag": "%s:%s" % (dialect, "cte" if g["use_cte_elim"] else "fmt"),
                        "detail": {"why": why, "options": desc, "result": res[1], "baseline_options": base_desc, "baseline": base,
                                   "sql": sql, "pipeline": str(ops)}}
    # a statement that runs under some options but raises under others is an options-dependent result too
    for dialect in ("sqlite", "pg"):
        n_raise = stats["raised:%s" % dialect]
        n_ok = sum(1 for k, v in seen.items() if isinstance(v, tuple) and v[0] == "ok")
    return {"status": "ok", "nontrivial": c04_interesting(case) and nt_rows(case, 1), "stats": dict(stats)}


PLAN_C04 = {
    "mc": [dict(what="laws of the reference, 2-call pipelines with shared sub-pipelines (dup) and joins, <= 1 row",
                fams=["stack", "binary"], rows=1, steps=2, level=1, **T12)],
    "emit": [micro(2, 30),
             dict(what="fork / merge / re-join shapes over the micro alphabet: every 6-call behaviour that re-uses a sub-pipeline "
                       "(extend z=o+1 | x=x+1, windowed w=sum(y) | w=_size() by o, dup, swap, concat | inner join), <= 1 row",
                  fams=["extend", "wextend", "stack", "binary"], rows=1, steps=6, level=0, one_in=4, emitsel="fork", timeout=600, **TB),
             dict(what="the same shapes over TWO tables with the same columns (identical steps over different sources): every 5-call "
                       "behaviour that ends with one open pipeline, <= 1 row", fams=["extend", "wextend", "stack", "binary"], rows=1, steps=5,
                  level=0, one_in=6, emitsel="fork", timeout=600, tabcols="MCB2_TabCols", colvals="MCB_ColVals"),
             dict(what="an ordering with a limit inside one branch of a fork (dup | swap, order_rows by o / z / w with limit 0 | 1, "
                       "concat | inner join): every 4-call behaviour that ends with one open pipeline, <= 1 row",
                  fams=["oo", "extend", "stack", "binary"], rows=1, steps=4, level=0, one_in=1, emitsel="fork", timeout=600, **TB),
             dict(what="one sub-pipeline (a grouped project) used twice, once below select_rows / a column-reversing select_columns "
                       "(project w=sum(x) by o, o >= 0, reversed select, dup | swap, concat | inner join): every 6-call behaviour "
                       "that ends with one open pipeline, one-row and empty tables",
                  fams=["po1", "sr", "corev", "stack", "binary"], rows=1, steps=6, level=0, one_in=1, emitsel="fork", timeout=600,
                  quota=(700, 3000), tabcols="MCB_TabCols", colvals="MCD_ColVals"),
             dict(what="all 2-call extend / windowed extend sequences, <= 1 row (sampled)", fams=["extend", "extend2", "wextend"], rows=1,
                  steps=2, level=1, one_in=300, timeout=300, tier=("thorough",), **TB)],
    "sim": dict(what="random pipelines of 4 calls biased to shared sub-pipelines and consecutive extends",
                fams=["extend", "extend2", "wextend", "stack", "binary", "cols", "select_rows", "project"],
                num=(1500, 5000), rows=3, steps=4, **SIMT),
    "rule": "behaviours of Exec.tla; the SQL of each is generated for SQLiteModel and PostgreSQLModel (CTE elimination really "
            "active; executed by proxy on SQLite), with extend merging on and off, under all 32 combinations of use_with, annotate, "
            "initial_commas, use_cte_elim and two indents when the pipeline re-uses a sub-pipeline or has consecutive extends (a "
            "5-combination cover otherwise), de-duplicated by text, executed, and every result compared with the first; "
            "non-trivial = shared sub-pipeline or consecutive extends, and some input has rows",
    "limit": (1200, 6000),
    "assumptions": ASSUME_REL + ["PostgreSQL-dialect text is executed on SQLite 3.40 (no PostgreSQL engine in the sandbox)",
                                 "statements that raise under an option combination are counted, not compared"],
}


def c04_sqlgen_traces(vd, stats, tier):
    """code -> spec: events of the WITH-sequencing / CTE cache machine recorded while the option matrix was generated are
    validated by TLC against spec/Trace_SqlGen.tla (UniqueNames, DefBeforeUse, MissOnlyIfAbsent, HitSameMeaning)"""
    from . import exec_traces
    exec_traces.stop()
    prefix = os.path.join(common.scratch(), "C04sql_trace")
    tr = rc.TlcRun()
    traces = exec_traces.read_sqlgen_traces(prefix, limit=(6000 if tier == "quick" else 60000))
    rej = exec_traces.validate_sqlgen(traces, tr, "events of %d statements put into WITH form validated by Trace_SqlGen" % len(traces))
    for ti, (law, idx) in sorted(rej.items()):
        stats["sqlgen_trace:rejected"] += 1
        vd.violation({"kind": "sqlgen-trace", "law": law, "event_index": idx, "event": traces[ti][idx], "trace": traces[ti]},
                     tag="sqlgen:" + law)
    stats["sqlgen_trace:accepted"] += len(traces) - len(rej)
    # binding demonstration: a recorded trace whose hit is given a different content signature (what the repaired stale-key
    # defect D10 produced) must be rejected by the same trace specification
    withhit = [t for t in traces if any(e["sqlgen"] == "hit" for e in t)]
    if withhit:
        bad = json.loads(json.dumps(withhit[0]))
        for e in bad:
            if e["sqlgen"] == "hit":
                e["sig"] = "corrupted000"
                break
        r2 = exec_traces.validate_sqlgen([bad], tr, "binding demonstration: a hit with a different content signature must be rejected")
        if not r2 or r2[0][0] != "HitSameMeaning":
            raise common.MachineryError("Trace_SqlGen accepted a corrupted trace")
        stats["sqlgen_trace:corrupted_trace_rejected"] = 1
    return {"sqlgen_statements_validated": len(traces), "sqlgen_statements_with_cache_hits": len(withhit),
            "sqlgen_events": sum(len(t) for t in traces), "states": tr.states, "transitions": tr.transitions, "tlc_runs": tr.runs}


def check_C04(tier, replay=None):
    if not replay:
        os.environ["DATA_ALGEBRA_VERIF_TRACE"] = os.path.join(common.scratch(), "C04sql_trace")
    return generic_plan("C04", tier, PLAN_C04, w_c04, replay, extra={"full": tier == "thorough"}, post=c04_sqlgen_traces)


CHECKS["C04"] = check_C04


# ============================================================================================= C11
def c11_pairs(cases, tier):
    """sibling behaviours: same inputs and same calls except the LAST one -> pairs (p, q) differing in one step"""
    groups = collections.defaultdict(list)
    for c in cases:
        if not all(h["ok"] for h in c["hist"]):
            continue
        key = json.dumps([c["inp"], c["prog"][:-1]], sort_keys=True)
        groups[key].append(c)
    rng = random.Random(common.seed())
    pairs = []
    for key, g in groups.items():
        if len(g) < 2:
            continue
        g = sorted(g, key=lambda c: json.dumps(c["prog"][-1]))
        # prefer siblings whose last calls are of the same kind (they differ in one argument)
        by_kind = collections.defaultdict(list)
        for c in g:
            by_kind[c["prog"][-1][0]].append(c)
        for kind, gg in by_kind.items():
            for i in range(len(gg) - 1):
                pairs.append({"p": gg[i], "q": gg[i + 1], "inp": gg[i]["inp"], "prog": gg[i]["prog"], "hist": gg[i]["hist"]})
        if len(by_kind) >= 2:
            ks = sorted(by_kind)
            pairs.append({"p": by_kind[ks[0]][0], "q": by_kind[ks[1]][0], "inp": g[0]["inp"], "prog": g[0]["prog"], "hist": g[0]["hist"]})
    limit = 4000 if tier == "quick" else 40000
    if len(pairs) > limit:
        pairs = rng.sample(pairs, limit)
    return pairs


def _pair_sample(pr):
    return {"p": rc.short_case(pr["p"]), "q_last_step": pr["q"]["prog"][-1]}


@safe
def w_c11(args):
    pr, _ = args
    p_case, q_case = pr["p"], pr["q"]
    be = relreplay._backends()
    p = relcase.build(p_case).final
    p2 = relcase.build(p_case).final
    q = relcase.build(q_case).final
    stats = collections.Counter()
    if not (p == p) or not (p == p2) or (p != p2) or not (q == q):
        return {"status": "violation", "nontrivial": True, "tag": "reflexive",
                "detail": {"why": "== is not reflexive (p == p, or two separately built identical pipelines)", "p": str(p)}}
    e1, e2 = (p == q), (q == p)
    if e1 != e2:
        return {"status": "violation", "nontrivial": True, "tag": "symmetric",
                "detail": {"why": "p == q is %s but q == p is %s" % (e1, e2), "p": str(p), "q": str(q)}}
    if (p != q) != (not e1):
        return {"status": "violation", "nontrivial": True, "tag": "ne", "detail": {"why": "!= is not the negation of ==", "p": str(p), "q": str(q)}}
    stats["equal_pairs" if e1 else "unequal_pairs"] += 1
    if not e1:
        return {"status": "ok", "nontrivial": False, "stats": dict(stats)}
    # the two compare equal: they must be indistinguishable
    kinds = p_case["kinds"]
    tp = spec_table(p_case["hist"][-1]["top"], kinds)
    tq = spec_table(q_case["hist"][-1]["top"], kinds)
    ok, why = same_table(tp, tq, ordered=p_case["hist"][-1]["ordered"] and q_case["hist"][-1]["ordered"])
    if not ok:
        return {"status": "violation", "nontrivial": True, "tag": "equal-but-different-meaning:" + p_case["prog"][-1][0],
                "detail": {"why": "p == q but the reference results differ on this input: " + why, "p": str(p), "q": str(q),
                           "p_result": tp, "q_result": tq}}
    frames = be.frames(p_case)
    try:
        rp, rq = abs_table(p.eval(frames)), abs_table(q.eval(frames))
        ok, why = same_table(rp, rq)
        if not ok:
            return {"status": "violation", "nontrivial": True, "tag": "equal-but-different-result",
                    "detail": {"why": "p == q but Pandas results differ: " + why, "p": str(p), "q": str(q)}}
    except Exception:  # noqa: BLE001
        stats["eval_raised"] += 1
    for (dialect, merges), model in _models().items():
        if not merges:
            continue
        try:
            sp, sq = model.to_sql(p), model.to_sql(q)
        except Exception:  # noqa: BLE001
            stats["to_sql_raised"] += 1
            continue
        if sp != sq:
            return {"status": "violation", "nontrivial": True, "tag": "equal-but-different-sql:" + dialect,
                    "detail": {"why": "p == q but the %s SQL differs" % dialect, "p": str(p), "q": str(q)}}
    return {"status": "ok", "nontrivial": True, "stats": dict(stats)}


PLAN_C11 = {
    "mc": [dict(what="laws of the reference, every unary step, one table, <= 1 row", fams=UNARY, rows=1, steps=1, level=1, **T1)],
    "emit": [
        dict(what="all 1-call pipelines over all tables of <= 2 rows from a 4-row universe (siblings differ in the call)", fams=UNARY,
             rows=2, steps=1, level=2, one_in=2, timeout=600, tabcols="MCB_TabCols", colvals="MCD_ColVals"),
        dict(what="join/concat of two tables (siblings differ in join type / keys / label), <= 1 row", fams=["stack", "binary"], rows=1,
             steps=2, level=2, one_in=3, **T12),
    ],
    "sim": None,
    "prepare": c11_pairs,
    "sample": _pair_sample,
    "rule": "pairs of sibling behaviours of Exec.tla: same inputs, same calls except the last, which differs (another expression, "
            "constant, aggregate, key list, reversal, limit, join type, label ...); for each pair the real p == q, q == p, p != q and "
            "p == p are evaluated; if p == q the TLA+ reference results on the shared input, the Pandas results and the SQL text in "
            "the SQLite and PostgreSQL dialects must coincide; non-trivial = the pair compares equal",
    "limit": (60000, 120000),
    "assumptions": ["distinguishability is witnessed on the inputs TLC generated for the pair; record-map arguments are covered by C17"],
}


def tables_c11(vd, stats, tier):
    """leaves: two table descriptions that compare equal must behave identically (same result columns, same SQL)"""
    import pandas
    from data_algebra.data_ops import TableDescription
    d = pandas.DataFrame({"x": [1, 2], "y": [3, 4], "z": [5, 6]})
    forms = {"fewer columns": (["x", "y", "z"], ["x", "y"]), "other column order": (["x", "y", "z"], ["z", "x", "y"]),
             "same description": (["x", "y"], ["x", "y"])}
    n = 0
    for form, (ca, cb) in sorted(forms.items()):
        for wrap in ("bare", "select_rows"):
            a, b = TableDescription(table_name="d", column_names=ca), TableDescription(table_name="d", column_names=cb)
            if wrap == "select_rows":
                a, b = a.select_rows("x > 0"), b.select_rows("x > 0")
            n += 1
            eq = (a == b)
            if eq != (b == a) or eq == (a != b):
                vd.violation({"kind": "table-eq", "form": form, "wrap": wrap, "what": "== / != inconsistent"}, tag="table-eq:inconsistent")
                continue
            if form == "same description" and not eq:
                vd.violation({"kind": "table-eq", "form": form, "wrap": wrap, "what": "identically built descriptions compare unequal"},
                             tag="table-eq:reflexive")
            if not eq:
                stats["table_pairs_unequal"] += 1
                continue
            stats["table_pairs_equal"] += 1
            ra, rb = list(a.transform(d).columns), list(b.transform(d).columns)
            sa, sb = _models()[("sqlite", True)].to_sql(a), _models()[("sqlite", True)].to_sql(b)
            if ra != rb or sa != sb:
                fid = None
                for f in vd.findings.get("findings", []):
                    if "C11" in f.get("properties", []) and f.get("kind") == "table-eq" and f["form"] == form and f["wrap"] == wrap:
                        fid = f["id"]
                if fid:
                    vd.note_known(fid)
                    continue
                vd.violation({"kind": "table-eq", "form": form, "wrap": wrap, "columns_a": ca, "columns_b": cb,
                              "result_columns_a": ra, "result_columns_b": rb, "sql_equal": sa == sb,
                              "what": "a == b but the results / SQL differ"}, tag="table-eq:" + form)
    return {"table_description_pairs": n}


def shared_c11(vd, stats, tier):
    """a sub-pipeline used twice (dup) against the same shape with a DIFFERENT second branch: behaviours [e, dup, combine]
    of Exec.tla are rebuilt as [e, table t1, e', combine] where e' is e with another constant; == must stay symmetric and, if
    it says equal, the two must evaluate alike"""
    tr = rc.TlcRun()
    r = rc.run_exec(tr, "shared sub-pipelines: every 3- and 4-call fork behaviour (extend, dup | swap, concat | inner join), <= 1 row",
                    emit=True, backends=True, fams=["extend", "stack", "binary"], rows=1, steps=4, level=0, emitsel="fork", timeout=300, **TB)
    cases = relreplay.parse_cases(r.lines)
    be = relreplay._backends()
    seen, n = set(), 0

    def bump(e):
        if isinstance(e, list):
            if len(e) == 2 and e[0] == "k":
                return ["k", e[1] + 1]
            return [bump(x) for x in e]
        return e
    for case in cases:
        prog = case["prog"]
        if not all(h["ok"] for h in case["hist"]) or "dup" not in [st[0] for st in prog]:
            continue
        i = [st[0] for st in prog].index("dup")
        prefix = prog[:i]
        if not prefix or prefix[-1][0] != "extend" or any(st[0] in ("dup", "table", "swap") for st in prefix):
            continue
        key = json.dumps(prog)
        if key in seen:
            continue
        seen.add(key)
        qprog = prefix + [["table", "t1"]] + prefix[:-1] + [bump(prefix[-1])] + prog[i + 1:]
        qcase = dict(case, prog=qprog)
        try:
            p, q = relcase.build(case).final, relcase.build(qcase).final
        except Exception:  # noqa: BLE001
            continue
        n += 1
        e1, e2 = (p == q), (q == p)
        if e1 != e2 or (p != q) == e1:
            vd.violation({"kind": "shared-eq", "what": "p == q is %s but q == p is %s (p uses one sub-pipeline twice, q has a different "
                          "second branch)" % (e1, e2), "p": str(p), "q": str(q), "prog": prog, "qprog": qprog}, tag="shared-eq:symmetric")
            continue
        stats["shared_pairs_equal" if e1 else "shared_pairs_unequal"] += 1
        if e1:
            frames = be.frames(case)
            try:
                ok, why = same_table(abs_table(p.eval(frames)), abs_table(q.eval(frames)))
            except Exception:  # noqa: BLE001
                continue
            if not ok:
                vd.violation({"kind": "shared-eq", "what": "p == q but the Pandas results differ: " + why, "p": str(p), "q": str(q),
                              "prog": prog, "qprog": qprog}, tag="shared-eq:meaning")
    return {"shared_subpipeline_pairs": n, "states_shared": tr.states}


def pipelines_c12(vd, stats, tier):
    """C12 over whole pipelines: behaviours of Exec.tla (every operator kind, limits incl. an explicit 0, reversals, joins,
    concats, windows, map_columns ...) are printed four ways, rebuilt with eval_da_ops and must compare equal to the original
    and evaluate to the same Pandas result"""
    from data_algebra.expr_parse_fn import eval_da_ops
    tr = rc.TlcRun()
    quick = tier == "quick"
    results = [rc.run_exec(tr, "random pipelines of 3 calls over 2 tables of <= 2 rows (printing round trip) seed=%d" % common.seed(),
                           simulate={"num": 1500 if quick else 6000, "seed": common.seed()}, emit=True, backends=True, level=2, samplek=6,
                           rows=2, steps=3, **SIMT),
               rc.run_exec(tr, "every order_rows / column step over all tables, no rows (limits 0 | 1 | 2 | explicit 0, reversals)",
                           emit=True, backends=True, fams=["order", "cols"], rows=0, steps=1, level=2, **T1)]
    cases = rc.collect_cases(results, limit=(1500 if quick else 8000), tier=tier)
    be = relreplay._backends()
    n = 0
    for case in cases:
        if not all(h["ok"] for h in case["hist"]):
            continue
        try:
            ops = relcase.build(case).final
        except Exception:  # noqa: BLE001
            continue
        frames = be.frames(case)
        try:
            base = abs_table(ops.eval(frames))
        except Exception:  # noqa: BLE001
            base = None
        n += 1
        for name, f in (("to_python", lambda: ops.to_python(pretty=False)), ("to_python_pretty", lambda: ops.to_python(pretty=True)),
                        ("repr", lambda: repr(ops)), ("str", lambda: str(ops))):
            try:
                src = f()
                ops2 = eval_da_ops(src, data_model_map={})
                same = (ops2 == ops) and (ops == ops2)
                why = "the rebuilt pipeline compares unequal"
                if same and base is not None:
                    same, why = same_table(abs_table(ops2.eval(frames)), base, ordered=case["hist"][-1]["ordered"])
            except Exception as ex:  # noqa: BLE001
                same, why, src = False, "raised %s: %s" % (type(ex).__name__, str(ex)[:300]), None
            stats["pipeline_rebuilds"] += 1
            if not same:
                vd.violation({"kind": "pipeline-print", "form": name, "why": why, "printed": src, "prog": case["prog"], "pipeline": str(ops)},
                             tag="pipeline-print:%s:%s" % (name, case["prog"][-1][0]))
                break
    return {"pipelines_printed_and_rebuilt": n, "states_pipelines": tr.states, "tlc_runs_pipelines": tr.runs}


def check_C11(tier, replay=None):
    from . import rec_props

    def post(vd, stats, tier_):
        out = rec_props.records_c11(vd, stats, tier_)
        out.update(tables_c11(vd, stats, tier_))
        out.update(shared_c11(vd, stats, tier_))
        return out
    return generic_plan("C11", tier, PLAN_C11, w_c11, replay, post=post)


CHECKS["C11"] = check_C11
