#!/bin/bash
# run the pinned suite (guard off) on a scratch copy of a repo tree and compare with BASELINE.json
# usage: run_baseline.sh <repo-dir>
set -u
SRC=${1:-/repo}
W=$(mktemp -d /tmp/baseline_XXXXXX)
rsync -a --exclude .git "$SRC"/ "$W"/repo/
cd "$W/repo"
env -u DATA_ALGEBRA_VERIF /venv/bin/python -m pytest -ra -q -p no:cacheprovider --timeout=900 --continue-on-collection-errors --junitxml="$W/junit.xml" >"$W/out.txt" 2>&1 || true
/venv/bin/python - "$W/junit.xml" <<'PY'
import sys, json, xml.etree.ElementTree as ET
base=json.load(open('/root/.vp/BASELINE.json'))
want=set(base['stable_pass'])
root=ET.parse(sys.argv[1]).getroot()
passed=set()
for tc in root.iter('testcase'):
    name=tc.get('classname')+'::'+tc.get('name')
    if not any(ch.tag in ('failure','error','skipped') for ch in tc): passed.add(name)
missing=sorted(want-passed)
print("passed", len(passed), "baseline", len(want), "missing", len(missing))
for m in missing: print("  MISSING", m)
PY
rm -rf "$W"
