"""Spec self-check (DESIGN.md 5.1): for single-operator behaviours the TLA+ reference result is compared with HAND-WRITTEN
plain SQL that does not go through data_algebra (native INNER/LEFT/RIGHT/FULL/CROSS JOIN ... ON, GROUP BY, window
functions with OVER) executed on SQLite 3.40.  A disagreement means the reference (or this rendering) is wrong: it is a
MACHINERY failure (exit 2), never a VIOLATION - it guards the checks against raising alarms from a wrong oracle."""
import sqlite3

from . import relcase
from .relcase import spec_table, same_table

NULL = "NULL"


def _load(con, name, tbl, kinds):
    cols = tbl["cols"]
    con.execute('DROP TABLE IF EXISTS "%s"' % name)
    con.execute('CREATE TABLE "%s" (%s)' % (name, ", ".join('"%s" %s' % (c, "TEXT" if kinds[c] == "s" else "REAL") for c in cols)))
    for r in tbl["rows"]:
        vals = [(relcase.sval(r[c]) if kinds[c] == "s" else relcase.nval(r[c])) for c in cols]
        con.execute('INSERT INTO "%s" VALUES (%s)' % (name, ", ".join("?" for _ in cols)), vals)


def _q(c):
    return '"%s"' % c


def render(case):
    """(sql, input tables) for a behaviour consisting of one operator on input tables, or None"""
    prog = case["prog"]
    kinds = case["kinds"]
    inp = case["inp"]
    if len(prog) == 1 and prog[0][0] == "project":
        asg, grp = prog[0][1], prog[0][2]
        terms = [_q(g) for g in grp]
        for a in asg:
            fn, src = a[1], a[2]
            if fn in ("size", "_size"):
                e = "COUNT(1)"
            elif fn == "count":
                e = "COUNT(%s)" % _q(src)
            elif fn == "nunique":
                e = "COUNT(DISTINCT %s)" % _q(src)
            elif fn == "mean":
                e = "AVG(%s)" % _q(src)
            elif fn in ("sum", "max", "min"):
                e = "%s(%s)" % (fn.upper(), _q(src))
            else:
                return None
            terms.append("%s AS %s" % (e, _q(a[0])))
        sql = "SELECT %s FROM t1" % ", ".join(terms)
        if grp:
            sql += " GROUP BY " + ", ".join(_q(g) for g in grp)
        return sql, ["t1"]
    if len(prog) == 1 and prog[0][0] == "wextend":
        asg, part, ordr, rev = prog[0][1], prog[0][2], prog[0][3], prog[0][4]
        cols = inp["t1"]["cols"]
        over = ""
        if part:
            over += "PARTITION BY " + ", ".join(_q(c) for c in part)
        ob = ", ".join(_q(c) + (" DESC" if c in rev else "") for c in ordr)
        terms = [_q(c) for c in cols if c not in [a[0] for a in asg]]
        for a in asg:
            fn, src, n = a[1], a[2], a[3]
            o = over + ((" ORDER BY " + ob) if ordr else "")
            frame = " ROWS BETWEEN UNBOUNDED PRECEDING AND CURRENT ROW" if ordr else ""
            if fn in ("cumsum", "cummax", "cummin"):
                e = "%s(%s) OVER (%s%s)" % ({"cumsum": "SUM", "cummax": "MAX", "cummin": "MIN"}[fn], _q(src), o, frame)
            elif fn == "_row_number":
                e = "ROW_NUMBER() OVER (%s)" % o
            elif fn == "shift":
                e = ("LAG(%s, %d) OVER (%s)" % (_q(src), n, o)) if n >= 0 else ("LEAD(%s, %d) OVER (%s)" % (_q(src), -n, o))
            elif fn in ("sum", "max", "min"):
                e = "%s(%s) OVER (%s)" % (fn.upper(), _q(src), over)
            elif fn == "count":
                e = "COUNT(%s) OVER (%s)" % (_q(src), over)
            elif fn in ("size", "_size"):
                e = "COUNT(1) OVER (%s)" % over
            elif fn == "mean":
                e = "AVG(%s) OVER (%s)" % (_q(src), over)
            else:
                return None
            terms.append("%s AS %s" % (e, _q(a[0])))
        return "SELECT %s FROM t1" % ", ".join(terms), ["t1"]
    if len(prog) == 2 and prog[0][0] in ("table", "dup") and prog[1][0] in ("join", "joinc"):
        right = prog[0][1] if prog[0][0] == "table" else "t1"
        jt, on = prog[1][1], prog[1][2]
        lc, rc = inp["t1"]["cols"], inp[right]["cols"]
        out = list(lc) + [c for c in rc if c not in lc]
        terms = []
        for c in out:
            if c in lc and c in rc:
                terms.append('COALESCE(l.%s, r.%s) AS %s' % (_q(c), _q(c), _q(c)))
            elif c in lc:
                terms.append('l.%s AS %s' % (_q(c), _q(c)))
            else:
                terms.append('r.%s AS %s' % (_q(c), _q(c)))
        if jt == "CROSS" or (jt == "INNER" and not on):
            sql = 'SELECT %s FROM t1 l CROSS JOIN "%s" r' % (", ".join(terms), right)
        else:
            if not on:
                return None
            cond = " AND ".join('l.%s = r.%s' % (_q(p[0]), _q(p[1])) for p in on)
            sql = 'SELECT %s FROM t1 l %s JOIN "%s" r ON %s' % (", ".join(terms), {"INNER": "INNER", "LEFT": "LEFT", "RIGHT": "RIGHT", "FULL": "FULL OUTER"}[jt], right, cond)
        return sql, sorted({"t1", right})
    return None


def check(case, con=None):
    """None if not applicable / agrees; else a description of the disagreement between reference and native SQL"""
    if not all(h["ok"] for h in case["hist"]) or any(h["conv"] for h in case["hist"]):
        return None
    r = render(case)
    if r is None:
        return None
    sql, tables = r
    own = con is None
    con = con or sqlite3.connect(":memory:")
    try:
        for t in tables:
            _load(con, t, case["inp"][t], case["kinds"])
        cur = con.execute(sql)
        cols = [d[0] for d in cur.description]
        rows = [tuple((None if v is None else (v if isinstance(v, str) else float(v))) for v in row) for row in cur.fetchall()]
    finally:
        if own:
            con.close()
    exp = spec_table(case["hist"][-1]["top"], case["kinds"])
    ok, why = same_table((cols, rows), exp)
    if ok:
        return None
    return "TLA+ reference %r differs from native SQL %r for %s: %s" % (exp, (cols, rows), sql, why)
