#!/bin/bash
# seed sweep on the unchanged tree: every check, several seeds; prints one line per run
# usage: sweep.sh "<seeds>" <props...>
SEEDS=$1; shift
for s in $SEEDS; do
  for p in "$@"; do
    t0=$(date +%s)
    out=$(VERIF_SEED=$s ./check $p --tier quick 2>&1); rc=$?
    echo "seed=$s $p exit=$rc $(( $(date +%s)-t0 ))s $(echo "$out" | grep -m2 '^VIOLATION\|^MACHINERY' | tr '\n' ' ')"
    if [ $rc -ne 0 ]; then mkdir -p sweep_fail; echo "$out" > sweep_fail/${p}_seed$s.log; cp -r replays/$p sweep_fail/${p}_seed${s}_replays 2>/dev/null; fi
  done
done
