#!/bin/bash
# run checks against a seeded change in a scratch worktree (never in /repo)
# usage: mutant_run.sh <patch.diff> <tier> <prop> [<prop>...]
P=$1; TIER=$2; shift 2
W=$(mktemp -d /tmp/mutrepo_XXXX)
rmdir $W
git -C /repo worktree add -q $W HEAD || exit 2
( cd $W && git apply $P ) || { echo "patch does not apply: $P"; git -C /repo worktree remove --force $W; exit 2; }
for prop in "$@"; do
  out=$(cd /verif && VERIF_REPO=$W ./check $prop --tier $TIER 2>&1)
  rc=$?
  nv=$(echo "$out" | grep -c '^VIOLATION')
  echo "$(basename $(dirname $P)) $prop exit=$rc violations_listed=$nv $(echo "$out" | grep -m1 '^VIOLATION\|^MACHINERY')"
done
git -C /repo worktree remove --force $W
