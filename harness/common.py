"""Shared machinery: paths, TLC runner, evidence writer, known-findings protocol.

Everything a registered check needs lives under /verif; scratch goes to a private mkdtemp that is
removed on exit.
"""
import atexit
import hashlib
import json
import os
import re
import shutil
import subprocess
import sys
import tempfile
import time

VERIF = os.path.dirname(os.path.dirname(os.path.abspath(__file__)))
SPEC = os.path.join(VERIF, "spec")
REPO = os.environ.get("VERIF_REPO", "/repo")
EVIDENCE = os.path.join(VERIF, "evidence")
REPLAYS = os.path.join(VERIF, "replays")
TLA_JAR = "/opt/veriftools/tla/tla2tools.jar:/opt/veriftools/tla/CommunityModules-deps.jar"

_scratch = None


def scratch():
    """private scratch directory, removed at exit"""
    global _scratch
    if _scratch is None:
        _scratch = tempfile.mkdtemp(prefix="verif_")
        atexit.register(shutil.rmtree, _scratch, True)
    return _scratch


def seed():
    try:
        return int(os.environ.get("VERIF_SEED", "0"))
    except ValueError:
        return 0


class MachineryError(Exception):
    """the verification machinery itself failed (TLC error, timeout, oracle self-check): exit 2"""


class TlcResult:
    def __init__(self):
        self.states = 0          # distinct states
        self.transitions = 0     # states generated
        self.depth = 0
        self.lines = []          # payload lines printed by the spec (PrintT)
        self.violated = None     # name of a violated invariant / property, if any
        self.eval_failed = None  # name of an invariant whose evaluation raised a TLC error
        self.deadlock = False
        self.error = None
        self.trace = []          # counterexample states (text)
        self.wall = 0.0
        self.cmd = ""
        self.coverage = {}
        self.tail = ""


def write_cfg(path, spec="Spec", constants=None, invariants=(), properties=(), deadlock=False,
              constraint=None, view=None, action_constraint=None, postcondition=None, init_next=None):
    out = []
    if init_next:
        out.append("INIT %s\nNEXT %s" % init_next)
    else:
        out.append("SPECIFICATION %s" % spec)
    if constants:
        out.append("CONSTANTS")
        for k, v in constants.items():
            out.append("  %s %s" % (k, v))       # v carries "= x" or "<- Def"
    for i in invariants:
        out.append("INVARIANT %s" % i)
    for p in properties:
        out.append("PROPERTY %s" % p)
    if constraint:
        out.append("CONSTRAINT %s" % constraint)
    if action_constraint:
        out.append("ACTION_CONSTRAINT %s" % action_constraint)
    if view:
        out.append("VIEW %s" % view)
    if postcondition:
        out.append("POSTCONDITION %s" % postcondition)
    out.append("CHECK_DEADLOCK %s" % ("TRUE" if deadlock else "FALSE"))
    with open(path, "w") as f:
        f.write("\n".join(out) + "\n")


_PAYLOAD = re.compile(r'^"((?:CASE|TRACE|OBS|REJ|ACC|WIT|DRIFT) .*)"$')      # PrintT payload lines of the specs


_spec_copy = None


def spec_copy():
    """scratch copy of spec/ so that generated wrapper modules and cfg files sit next to the modules"""
    global _spec_copy
    if _spec_copy is None:
        d = os.path.join(scratch(), "spec")
        shutil.copytree(SPEC, d)
        _spec_copy = d
    return _spec_copy


def run_tlc(module, cfg, *, workers=16, simulate=None, depth=None, timeout=600, extra=(), env=None,
            payload_cb=None, keep_lines=True, continue_=False, coverage=False, java_opts=None, cwd=None):
    """Run TLC on spec/<module>.tla with the given cfg file (absolute path or relative to spec/).

    simulate: None for exhaustive BFS, else dict(num=N) for `-simulate num=N` with -depth.
    Payload lines are the PrintT strings starting with a known tag (CASE/TRACE/...): they are
    JSON-unescaped and handed to payload_cb (or collected in result.lines)."""
    res = TlcResult()
    meta = tempfile.mkdtemp(prefix="tlcmeta_", dir=scratch())
    cmd = ["java", "-XX:+UseParallelGC", "-Xmx24g"]
    if java_opts:
        cmd += list(java_opts)
    cmd += ["-cp", TLA_JAR, "tlc2.TLC", "-workers", str(workers), "-metadir", meta,
            "-noGenerateSpecTE", "-config", cfg]
    if simulate is not None:
        cmd += ["-simulate", "num=%d" % simulate["num"], "-depth", str(depth or 20),
                "-seed", str(simulate.get("seed", seed()))]
    if continue_:
        cmd += ["-continue"]
    if coverage:
        cmd += ["-coverage", "1"]
    cmd += list(extra)
    cmd += [module]
    res.cmd = " ".join(cmd)
    t0 = time.time()
    e = dict(os.environ)
    if env:
        e.update(env)
    proc = subprocess.Popen(cmd, cwd=(cwd or SPEC), stdout=subprocess.PIPE, stderr=subprocess.STDOUT,
                            text=True, env=e, bufsize=1 << 20)
    tail = []
    in_trace = False
    deadline = t0 + timeout
    try:
        for line in proc.stdout:
            line = line.rstrip("\n")
            m = _PAYLOAD.match(line)
            if m:
                try:
                    s = json.loads('"' + m.group(1) + '"')
                except Exception:
                    s = m.group(1)
                if payload_cb is not None:
                    payload_cb(s)
                elif keep_lines:
                    res.lines.append(s)
                continue
            tail.append(line)
            if len(tail) > 400:
                del tail[:200]
            if "Invariant" in line and "is violated" in line:
                mm = re.search(r"Invariant (\S+) is violated", line)
                res.violated = mm.group(1) if mm else "?"
                in_trace = True
            elif "Evaluating invariant" in line and "failed" in line:
                mm = re.search(r"Evaluating invariant (\S+) failed", line)
                res.eval_failed = mm.group(1) if mm else "?"
            elif "Action property" in line and "violated" in line:
                mm = re.search(r"Action property (\S+) ", line)
                res.violated = mm.group(1) if mm else "?"
                in_trace = True
            elif "Temporal properties were violated" in line:
                res.violated = res.violated or "temporal"
                in_trace = True
            elif "Deadlock reached" in line:
                res.deadlock = True
                in_trace = True
            elif line.startswith("Error:") and res.error is None and not res.violated and not res.deadlock:
                res.error = line
            if in_trace:
                res.trace.append(line)
                if len(res.trace) > 3000:
                    in_trace = False
            mm = re.match(r"^(\d+) states generated, (\d+) distinct states found", line)
            if mm:
                res.transitions = int(mm.group(1))
                res.states = int(mm.group(2))
            mm = re.search(r"The depth of the complete state graph search is (\d+)", line)
            if mm:
                res.depth = int(mm.group(1))
            if time.time() > deadline:
                proc.kill()
                res.error = "timeout after %ds" % timeout
                break
    finally:
        proc.wait()
        shutil.rmtree(meta, ignore_errors=True)
    res.wall = time.time() - t0
    res.tail = "\n".join(tail[-60:])
    if simulate is not None and res.states == 0:
        # simulation mode reports differently
        for line in tail:
            mm = re.search(r"(\d+) states checked", line)
            if mm:
                res.states = res.transitions = int(mm.group(1))
    if proc.returncode not in (0,) and res.error is None and not res.violated and not res.deadlock:
        # 12 = safety violation, 11 deadlock, 13 liveness; others are errors
        if proc.returncode not in (10, 11, 12, 13):
            res.error = "tlc exit %s" % proc.returncode
    return res


def tlc_or_die(res, what):
    if res.error:
        raise MachineryError("%s: TLC error: %s\n%s" % (what, res.error, res.tail))


# ---------------------------------------------------------------------------- known findings
def load_findings():
    with open(os.path.join(VERIF, "known_findings.json")) as f:
        return json.load(f)


class Verdicts:
    """collects violations / known findings for one check run"""

    def __init__(self, prop):
        self.prop = prop
        self.findings = load_findings()
        self.violations = []      # (key, replay path)
        self.known = {}           # finding id -> count
        self.samples = []

    def known_ids(self):
        return {f["id"] for f in self.findings.get("findings", []) if f.get("property") == self.prop or
                self.prop in f.get("properties", [])}

    def is_known(self, fid):
        return fid in self.known_ids()

    def finding(self, fid):
        for f in self.findings.get("findings", []):
            if f["id"] == fid:
                return f
        return None

    def note_known(self, fid, n=1):
        self.known[fid] = self.known.get(fid, 0) + n

    def violation(self, payload, tag=None):
        os.makedirs(os.path.join(REPLAYS, self.prop), exist_ok=True)
        blob = json.dumps(payload, sort_keys=True, default=str)
        h = hashlib.sha1(blob.encode()).hexdigest()[:12]
        path = os.path.join(REPLAYS, self.prop, "%s.json" % h)
        with open(path, "w") as f:
            f.write(blob)
        self.violations.append((tag or h, path))
        return path

    def report(self, max_lines=20):
        for fid, n in sorted(self.known.items()):
            f = self.finding(fid) or {}
            print("KNOWN-FINDING: property=%s %s: %s (seen %d times)" % (self.prop, fid, f.get("what", ""), n))
        seen = set()
        k = 0
        for tag, path in self.violations:
            if k >= max_lines:
                break
            print("VIOLATION property=%s replay=%s" % (self.prop, path))
            k += 1
        if len(self.violations) > k:
            print("... %d more violations not listed" % (len(self.violations) - k))
        return 1 if self.violations else 0


def write_evidence(prop, tier, level, coverage, wall_s, violations, assumptions=None, extra=None):
    os.makedirs(EVIDENCE, exist_ok=True)
    ev = {
        "property_id": prop,
        "tier": tier,
        "seed": seed(),
        "level": level,
        "coverage": coverage,
        "assumptions": assumptions or [],
        "wall_s": round(wall_s, 2),
        "violations": violations,
    }
    if extra:
        ev.update(extra)
    path = os.path.join(EVIDENCE, "%s.json" % prop)
    tmp = path + ".tmp"
    with open(tmp, "w") as f:
        json.dump(ev, f, indent=1, default=str)
    os.replace(tmp, path)
    return path
