"""Entry point: ./check <property> --tier quick|thorough [--replay <path>]

exit 0: property held on everything explored (KNOWN-FINDING lines may be printed)
exit 1: VIOLATION property=<id> replay=<path>
exit 2: the machinery itself failed (TLC error, timeout, oracle self-check) - never hides a violation
"""
import argparse
import json
import os
import sys
import time
import traceback

from . import common


def registry():
    from . import rel_props
    reg = {}
    reg.update(rel_props.CHECKS)
    for modname in ("sm_props", "rel_more", "expr_props", "lex_props", "rec_props", "misc_props"):
        if not os.path.exists(os.path.join(os.path.dirname(__file__), modname + ".py")):
            continue
        mod = __import__("harness." + modname, fromlist=["CHECKS"])
        reg.update(mod.CHECKS)
    return reg


def replay_record(prop, path):
    """replay files that do not hold a behaviour of a generator machine: recorded traces are validated again by TLC,
    other records (lexed texts, record-map pairs, TLC counterexamples) are shown; returns None for ordinary cases"""
    with open(path) as f:
        rec = json.load(f)
    kind = rec.get("kind")
    if kind in ("executor-trace", "sqlgen-trace"):
        from . import exec_traces, relchecks
        tr = relchecks.TlcRun()
        if kind == "executor-trace":
            rej = exec_traces.validate([rec["trace"]], tr, "replay of a recorded executor trace")
        else:
            rej = exec_traces.validate_sqlgen([rec["trace"]], tr, "replay of a recorded WITH-sequencing trace")
        print("recorded trace, %d events; rejected: %s" % (len(rec["trace"]), rej.get(0)))
        print(json.dumps(rec.get("event"), indent=1))
        if rej:
            print("VIOLATION property=%s replay=%s" % (prop, path))
        return 1 if rej else 0
    if "case" not in rec:
        print(json.dumps({k: v for k, v in rec.items() if k not in ("a", "b", "trace")}, indent=1, default=str)[:6000])
        print("VIOLATION property=%s replay=%s" % (prop, path))
        return 1
    return None


def main(argv=None):
    ap = argparse.ArgumentParser()
    ap.add_argument("prop")
    ap.add_argument("--tier", default=os.environ.get("VERIF_TIER", "quick"), choices=["quick", "thorough"])
    ap.add_argument("--replay", default=None)
    args = ap.parse_args(argv)
    reg = registry()
    if args.prop not in reg:
        print("unknown property %s (have: %s)" % (args.prop, ", ".join(sorted(reg))))
        return 2
    t0 = time.time()
    try:
        if args.replay:
            rc_ = replay_record(args.prop, args.replay)
            if rc_ is not None:
                return rc_
            return reg[args.prop](args.tier, replay=args.replay)
        return reg[args.prop](args.tier)
    except common.MachineryError as ex:
        print("MACHINERY-FAILURE property=%s %s" % (args.prop, str(ex)[:3000]))
        return 2
    except Exception:  # noqa: BLE001
        print("MACHINERY-FAILURE property=%s unexpected exception" % args.prop)
        traceback.print_exc()
        return 2
    finally:
        sys.stdout.flush()


if __name__ == "__main__":
    sys.exit(main())
