"""Checks of the relational family (C01, C03, C08, C09, C16, C18, C19, C27 ...) built on
Exec.tla: (1) TLC checks the laws of the reference semantics exhaustively within small constants,
(2) TLC emits behaviours (exhaustive strata + seeded simulation) whose per-step expectations are
replayed into the real code, (3) divergences are matched against known_findings.json."""
import collections
import json
import os
import random
import time

from . import common
from . import findings as kf
from . import relreplay

FOCUS_ALL = ["extend", "wextend", "project", "select_rows", "cols", "order", "stack", "binary"]


def focus_set(fams):
    return "{" + ", ".join('"%s"' % f for f in fams) + "}"


def exec_cfg(path, *, tabcols="MC_TabCols", colvals="MC_ColVals", rows=2, steps=1, backends=False,
             level=1, genbad=False, samplek=0, focus=None, invariants=(), emit=False, one_in=1, bdev="NoBDev", properties=(), emitsel="all"):
    consts = {
        "NULL": "= NULL",
        "PINF": "= PINF",
        "NINF": "= NINF",
        "TabCols": "<- " + tabcols,
        "ColVals": "<- " + colvals,
        "Kind": "<- MC_Kind",
        "MaxRows": "= %d" % rows,
        "MaxSteps": "= %d" % steps,
        "Backends": "<- " + ("AllBackends" if backends else "NoBackends"),
        "DevOf": "<- " + ("AllDevOf" if backends else "NoDevOf"),
        "Level": "= %d" % level,
        "GenBad": "= " + ("TRUE" if genbad else "FALSE"),
        "SampleK": "= %d" % samplek,
        "Focus": "<- FocusAll" if focus is None else "<- MC_Focus",
        "EmitOneIn": "= %d" % one_in,
        "BDev": "<- " + bdev,
        "EmitSel": '= "%s"' % emitsel,
    }
    inv = list(invariants) + (["Emit"] if emit else [])
    common.write_cfg(path, constants=consts, invariants=inv, properties=properties)


def write_focus_module(fams, name="MC_ExecF"):
    """a wrapper module fixing MC_Focus (cfg files cannot hold set literals of strings portably)"""
    path = os.path.join(common.spec_copy(), name + ".tla")
    body = "---- MODULE %s ----\nEXTENDS MC_Exec\nMC_Focus == %s\n====\n" % (name, focus_set(fams))
    with open(path, "w") as f:
        f.write(body)
    return path


class TlcRun:
    """accumulates TLC statistics over several runs of one check"""

    def __init__(self):
        self.states = 0
        self.transitions = 0
        self.runs = []

    def add(self, what, res):
        self.states += res.states
        self.transitions += res.transitions
        self.runs.append({"what": what, "states": res.states, "transitions": res.transitions,
                          "depth": res.depth, "wall_s": round(res.wall, 1), "violated": res.violated})


def run_exec(tr, what, *, fams=None, simulate=None, depth=14, timeout=900, workers=16, allow_eval_error=False, **cfgargs):
    """one TLC run of the Exec machine; returns TlcResult (payload lines = cases)"""
    sc = common.spec_copy()
    modname = "MC_ExecF_%d" % len(tr.runs)
    if fams is not None:
        module = write_focus_module(fams, modname)
    else:
        module = os.path.join(sc, "MC_Exec.tla")
    cfg = os.path.join(sc, "%s.cfg" % modname)
    exec_cfg(cfg, focus=fams, **cfgargs)
    res = common.run_tlc(module, cfg, workers=(1 if simulate else workers), simulate=simulate, depth=depth,
                         timeout=timeout, cwd=sc)
    if allow_eval_error and res.eval_failed and not res.violated:
        # a deviation model may break a property by making the simplified DAG unevaluable (it reads a column
        # that no longer exists): for a must-violate run that counts as violating that invariant
        res.violated = res.eval_failed
        res.error = None
    common.tlc_or_die(res, what)
    tr.add(what, res)
    return res


def nontrivial(case):
    if not any(len(t["rows"]) > 0 for t in case["inp"].values()):
        return False
    return len(case["hist"][-1]["top"]["rows"]) > 0


def short_case(case):
    return {"inputs": {t: [[r[c] for c in tb["cols"]] for r in tb["rows"]] for t, tb in case["inp"].items()},
            "columns": {t: tb["cols"] for t, tb in case["inp"].items()},
            "steps": case["prog"],
            "expected_final": {"cols": case["hist"][-1]["top"]["cols"],
                               "rows": [[r[c] for c in case["hist"][-1]["top"]["cols"]]
                                        for r in case["hist"][-1]["top"]["rows"]]}}


def law_violation(vd, res, what):
    """a law of the reference semantics failed in TLC: that is a violation of the DESIGN (spec
    level), reported with the TLC counterexample"""
    path = vd.violation({"kind": "tlc-law", "what": what, "violated": res.violated, "trace": res.trace[:400]})
    return path


def collect_cases(results, limit=None, rng=None, tier="quick"):
    """distinct cases of all TLC runs; over the limit the sample is STRATIFIED: every run (stratum) keeps a quota of
    limit / (2 * runs) of its own cases, the rest of the budget is drawn from all remaining cases (a small targeted
    stratum is not diluted by a large one)"""
    per_run = [relreplay.parse_cases(r.lines) for r in results]
    tier_i = 0 if tier == "quick" else 1
    seen, strata, own = set(), [], []
    for r, cs in zip(results, per_run):
        mine = []
        for c in cs:
            h = relreplay.case_hash(c)
            if h not in seen:
                seen.add(h)
                mine.append(c)
        if mine:
            strata.append(mine)
            q = getattr(r, "quota", None)          # a stratum may ask for its own (larger) quota: (quick, thorough)
            own.append(q[tier_i] if isinstance(q, (tuple, list)) else q)
    total = sum(len(m) for m in strata)
    if not limit or total <= limit:
        return [c for m in strata for c in m]
    rng = rng or random.Random(common.seed())
    quota = max(1, limit // (2 * max(1, len(strata))))
    chosen, rest = [], []
    for m, q in zip(strata, own):
        idx = list(range(len(m)))
        rng.shuffle(idx)
        k = max(quota, q or 0)
        chosen.extend(m[i] for i in idx[:k])
        rest.extend(m[i] for i in idx[k:])
    room = limit - len(chosen)
    if room > 0 and rest:
        chosen.extend(rng.sample(rest, min(room, len(rest))))
    return chosen[:limit] if len(chosen) > limit else chosen


PANDAS_ONLY_FNS = ("cumprod", "first", "last", "ffill", "bfill")


def _uses(e, names, tags=("u", "b", "t")):
    if not isinstance(e, list):
        return False
    if len(e) >= 2 and e[0] in tags and e[1] in names:
        return True
    return any(_uses(x, names, tags) for x in e if isinstance(x, list))


def pg_fragment(case):
    """PostgreSQL-dialect constructs that SQLite cannot execute are outside the proxy (DESIGN.md C02):
    is_bad / is_inf compare with CAST('+infinity' AS DOUBLE PRECISION); convert_records control tables"""
    if any(st[0] == "unpivot" for st in case["prog"]):
        return False     # record-map control tables are written as parenthesised UNION ALL members, which SQLite cannot parse
    return not _uses(case["prog"], ("is_bad", "is_inf"))


def judge_all(prop, vd, cases, backends, *, allow_raise=("polars", "polars_lazy"), stats=None,
              differential=None, accept_matters=True, opts=None, fn=None, relevant_ops=None):
    """replay cases; every backend against the reference; divergences matched with known findings.
    differential=(a, b): a divergence of a or b counts only if the two final results differ."""
    stats = stats if stats is not None else collections.Counter()
    fnd = vd.findings
    # spec self-check: single-operator behaviours against hand-written native SQL on SQLite (oracle guard, exit 2 on disagreement)
    from . import oracle_sql
    import sqlite3
    con = sqlite3.connect(":memory:")
    for case in cases:
        if len(case["prog"]) <= 2:
            bad = oracle_sql.check(case, con)
            if oracle_sql.render(case) is not None and all(h["ok"] for h in case["hist"]):
                stats["oracle_selfcheck_native_sql"] += 1
            if bad:
                raise common.MachineryError("spec self-check failed: " + bad)
    con.close()
    for case, out in relreplay.replay(cases, backends, opts=opts, fn=fn):
        stats["cases"] += 1
        if "crash" in out:
            raise common.MachineryError("harness crashed on a case: " + out["crash"])
        if "build_error" in out:
            raise common.MachineryError("harness could not build a case: " + out["build_error"])
        if not out["accept_ok"]:
            if accept_matters:
                stats["accept_mismatch"] += 1
                vd.violation({"kind": "acceptance", "case": case, "accepted": out["accept"],
                              "errors": out["accept_errors"], "expected": [h["ok"] for h in case["hist"]]})
            continue
        if nontrivial(case):
            stats["nontrivial"] += 1
        if not out.get("declared_ok", True):
            stats["declared_columns_mismatch"] += 1
            vd.violation({"kind": "declared-columns", "case": case, "declared": out["declared"]})
            continue
        for b_, j in out["backends"].items():
            v = j["verdict"]
            stats["%s:%s" % (b_, v[0])] += 1
            if v[0] in ("ok", "skip"):
                continue
            if relevant_ops is not None:
                si = v[2] if v[0] == "known" else v[1]
                if isinstance(si, int) and case["prog"][si][0] not in relevant_ops:
                    stats["%s:upstream_%s_at_other_step" % (b_, v[0])] += 1
                    continue
            if b_.split("/")[0] in ("sqlite", "pg") and _uses(case["prog"], PANDAS_ONLY_FNS, tags=("w",)):
                # the method catalogue does not claim these window functions for the SQL dialects
                stats["%s:not_claimed_by_catalogue" % b_] += 1
                continue
            if b_.split("/")[0] == "pg" and not pg_fragment(case):
                stats["pg:outside_proxy_fragment"] += 1
                continue
            fid = kf.classify(case, b_, v, fnd, prop)
            if fid:
                vd.note_known(fid)
                stats["%s:KF:%s" % (b_, fid)] += 1
                continue
            if v[0] == "raised" and b_.split("/")[0] in allow_raise:
                stats["%s:raised_allowed" % b_] += 1
                continue
            if differential and b_ in differential:
                other = out["backends"].get(differential[b_], {}).get("final")
                mine = j.get("final")
                if other is not None and mine is not None and relreplay.same_table(mine, other)[0]:
                    stats["differs_from_reference_but_equals_%s" % differential[b_]] += 1
                    continue
            stats["%s:VIOLATION" % b_] += 1
            vd.violation({"kind": "backend-vs-reference", "backend": b_, "verdict": v, "case": case},
                         tag="%s:%s:%s" % (b_, v[0], case["prog"][v[1]][0] if len(v) > 1 and isinstance(v[1], int) else ""))
    return stats
