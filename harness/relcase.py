"""Concretisation of Exec.tla cases and replay into the real code (spec -> code conformance).

A case (JSON printed by TLC) = inputs, the builder calls, and after every call the table the
reference semantics (and each backend's deviation model) puts on top of the pipeline stack.
This module builds the real frames and the real pipeline through the PUBLIC builder methods,
evaluates it on each backend from /repo's working tree and projects results back to the spec's
table form with ONE projection function (abs_table) and ONE comparison (same_table).
"""
import math
import os
import sys
import warnings

warnings.filterwarnings("ignore")

from . import common

if common.REPO not in sys.path:
    sys.path.insert(0, common.REPO)
os.environ.setdefault("DATA_ALGEBRA_VERIF", "1")

import numpy  # noqa: E402
import pandas  # noqa: E402
import polars  # noqa: E402

import data_algebra  # noqa: E402
import data_algebra.data_ops  # noqa: E402
import data_algebra.SQLite  # noqa: E402
import data_algebra.PostgreSQL  # noqa: E402
from data_algebra.data_ops import TableDescription  # noqa: E402
from data_algebra.sql_format_options import SQLFormatOptions  # noqa: E402

assert os.path.realpath(data_algebra.__file__).startswith(os.path.realpath(common.REPO)), \
    "data_algebra must be imported from the working tree under test: " + data_algebra.__file__

NULL = "NULL"


# ------------------------------------------------------------------ values
def sval(v):
    """text cell: abstract code i -> "s<i>"; symbolic results of concat / trimstr are realised here"""
    if isinstance(v, list):
        if v[0] == "cat":
            return sval(v[1]) + sval(v[2])
        if v[0] == "trim":
            return sval(v[1])[int(v[2]):int(v[3])]
        raise ValueError(v)
    if v == "nan":
        return "nan"
    return None if v == NULL else "s%d" % v


_UF = {"exp": math.exp, "log": math.log, "log10": math.log10, "sqrt": math.sqrt, "sin": math.sin, "cos": math.cos,
       "sinh": math.sinh, "cosh": math.cosh, "tanh": math.tanh, "arctan": math.atan, "expm1": math.expm1, "log1p": math.log1p}


def nval(v):
    if isinstance(v, list):
        # <<"q", num, den>> exact fraction; <<"uf", name, x>> uninterpreted function realised with Python's math
        if v[0] == "q":
            return float(v[1]) / float(v[2])
        if v[0] == "uf":
            return float(_UF[v[1]](float(v[2])))
        raise ValueError(v)
    if v == "PINF":
        return float("inf")
    if v == "NINF":
        return float("-inf")
    return None if v == NULL else float(v)


class Naming:
    """injective renaming of tables and columns (C15); identity by default"""

    def __init__(self, cols=None, tabs=None):
        self.cols = cols or {}
        self.tabs = tabs or {}

    def c(self, name):
        return self.cols.get(name, name)

    def t(self, name):
        return self.tabs.get(name, name)

    def back(self):
        return {v: k for k, v in self.cols.items()}


IDENT = Naming()


def _perm(n, key):
    import random as _r
    idx = list(range(n))
    _r.Random(key).shuffle(idx)
    if n > 1 and idx == list(range(n)):
        idx = idx[1:] + idx[:1]
    return idx


EXTRA_COLUMN = "verif_undeclared"


def make_pandas(tbl, kinds, nm=IDENT, int_cols=(), variant=None):
    """variant (C18/C19): None | "perm" (rows permuted) | "perm_keepidx" (permuted, shuffled integer index kept)
    | "dupidx" (all index labels equal) | "stridx" (text index) | "extracol" (C08: one more column than described)"""
    data = {}
    for c in tbl["cols"]:
        vals = [r[c] for r in tbl["rows"]]
        if kinds[c] == "s":
            data[nm.c(c)] = pandas.Series([sval(v) for v in vals], dtype="str")
        elif c in int_cols and all(v != NULL for v in vals):
            data[nm.c(c)] = pandas.Series([int(v) for v in vals], dtype="int64")
        else:
            data[nm.c(c)] = pandas.Series([numpy.nan if v == NULL else nval(v) for v in vals], dtype="float64")
    df = pandas.DataFrame(data, columns=[nm.c(c) for c in tbl["cols"]])
    n = df.shape[0]
    if variant in ("perm", "perm_keepidx") and n > 0:
        df = df.iloc[_perm(n, str(tbl["cols"]) + str(n))]
        if variant == "perm":
            df = df.reset_index(drop=True)
    elif variant == "dupidx" and n > 0:
        df.index = [7] * n
    elif variant == "stridx" and n > 0:
        df.index = ["r%d" % (n - i) for i in range(n)]
    elif variant == "extracol":
        # the input has a column its description does not mention (C08), placed first
        df.insert(0, EXTRA_COLUMN, 7.0)
    return df


def make_polars(tbl, kinds, nm=IDENT, variant=None):
    data = {}
    schema = {}
    rows = tbl["rows"]
    if variant in ("perm", "perm_keepidx") and len(rows) > 0:
        rows = [rows[i] for i in _perm(len(rows), str(tbl["cols"]) + str(len(rows)))]
    for c in tbl["cols"]:
        vals = [r[c] for r in rows]
        if kinds[c] == "s":
            data[nm.c(c)] = [sval(v) for v in vals]
            schema[nm.c(c)] = polars.Utf8
        else:
            data[nm.c(c)] = [nval(v) for v in vals]
            schema[nm.c(c)] = polars.Float64
    if variant == "extracol":
        data = dict([(EXTRA_COLUMN, [7.0] * len(rows))] + list(data.items()))
        schema = dict([(EXTRA_COLUMN, polars.Float64)] + list(schema.items()))
    return polars.DataFrame(data, schema=schema)


# ------------------------------------------------------------------ expressions
def etext(e, nm=IDENT):
    """spec AST -> data_algebra expression text, fully parenthesised"""
    t = e[0]
    if t == "c":
        return nm.c(e[1])
    if t == "k":
        return str(e[1]) if e[1] >= 0 else "(%d)" % e[1]
    if t == "ks":
        return '"s%d"' % e[1]
    if t == "u":
        a = etext(e[2], nm)
        op = e[1]
        if op == "neg":
            return "(-(%s))" % a
        if op == "not":
            return "(not (%s))" % a
        return "(%s).%s()" % (a, op)
    if t == "b":
        a, b = etext(e[2], nm), etext(e[3], nm)
        op = e[1]
        if op in ("maximum", "minimum", "fmax", "fmin", "coalesce", "mod", "remainder"):
            return "(%s).%s(%s)" % (a, op, b)
        return "((%s) %s (%s))" % (a, op, b)
    if t == "t":
        return "(%s).%s(%s, %s)" % (etext(e[2], nm), e[1], etext(e[3], nm), etext(e[4], nm))
    if t == "in":
        inner = e[1]
        if inner[0] == "c" and inner[1] in ("g", "h", "t", "h2", "src"):      # text column: the list holds text values
            return "(%s).is_in([%s])" % (etext(inner, nm), ", ".join('"s%d"' % v for v in e[2]))
        return "(%s).is_in([%s])" % (etext(e[1], nm), ", ".join(str(v) for v in e[2]))
    if t == "cat":
        return "(%s).concat(%s)" % (etext(e[1], nm), etext(e[2], nm))
    if t == "trim":
        return "(%s).trimstr(%d, %d)" % (etext(e[1], nm), e[2], e[3])
    if t == "mapv":
        return '(%s).mapv({"s0": 1, "s1": 2}, 0)' % etext(e[1], nm)
    if t == "uq":
        a = etext(e[2], nm)
        return "(-(%s))" % a if e[1] == "neg" else "(%s).%s()" % (a, e[1])
    if t == "nan":
        return "(%s).is_nan()" % etext(e[1], nm)
    if t == "around":
        return "(%s).around(%d)" % (etext(e[1], nm), e[2])
    raise ValueError("unknown expr tag %r" % (t,))


def aggtext(fn, src, n=None, nm=IDENT):
    if src == "":
        return "%s()" % fn
    if fn == "shift":
        return "%s.shift(%d)" % (nm.c(src), n)
    if fn == "nonagg":
        return "%s + 1" % nm.c(src)
    if fn == "complex":
        return "%s.sum() + 1" % nm.c(src)
    if fn == "argexpr":
        return "(%s + 1).sum()" % nm.c(src)
    return "%s.%s()" % (nm.c(src), fn)


def step_families(prog):
    return [st[0] for st in prog]


# ------------------------------------------------------------------ building the pipeline
class Built:
    def __init__(self):
        self.tops = []        # ops object on top of the stack after each step (None if rejected)
        self.accepted = []    # bool per step
        self.errors = []      # exception text per step
        self.final = None


def apply_step(stack, st, descs, nm=IDENT):
    """apply one spec step to the python stack of ViewRepresentations; returns new stack"""
    op = st[0]
    top = stack[-1]
    if op == "table":
        return stack + [descs[st[1]]]
    if op == "dup":
        return stack + [top]
    if op == "swap":
        return stack[:-2] + [top, stack[-2]]
    if op == "extend":
        new = top.extend({nm.c(a[0]): etext(a[1], nm) for a in st[1]})
    elif op == "wextend":
        asg, part, ordr, rev = st[1], st[2], st[3], st[4]
        kw = {}
        kw["partition_by"] = [nm.c(c) for c in part] if len(part) > 0 else 1
        if len(ordr) > 0:
            kw["order_by"] = [nm.c(c) for c in ordr]
        if len(rev) > 0:
            kw["reverse"] = [nm.c(c) for c in rev]
        new = top.extend({nm.c(a[0]): aggtext(a[1], a[2], a[3], nm) for a in asg}, **kw)
    elif op == "mextend":
        new = top.extend({nm.c(a[0]): aggtext(a[1], a[2], a[3], nm) for a in st[1]})      # no window arguments at all
    elif op == "project":
        asg, grp = st[1], st[2]
        new = top.project({nm.c(a[0]): aggtext(a[1], a[2], None, nm) for a in asg},
                          group_by=[nm.c(c) for c in grp])
    elif op == "select_rows":
        new = top.select_rows(etext(st[1], nm))
    elif op == "select_columns":
        new = top.select_columns([nm.c(c) for c in st[1]])
    elif op == "drop_columns":
        new = top.drop_columns([nm.c(c) for c in st[1]])
    elif op == "rename":
        new = top.rename_columns({nm.c(p[0]): nm.c(p[1]) for p in st[1]})
    elif op == "unpivot":
        from data_algebra.cdata import RecordSpecification, RecordMap
        vs = [nm.c(c) for c in st[1]]
        keys = [c for c in top.column_names if c not in vs]
        ct = pandas.DataFrame({nm.c("kk"): pandas.Series(["s%d" % (j + 1) for j in range(len(vs))], dtype="str"), nm.c("vv"): vs})
        rs = RecordSpecification(ct, record_keys=keys, control_table_keys=[nm.c("kk")])
        new = top.convert_records(RecordMap(blocks_out=rs))
    elif op == "map_columns":
        m = {nm.c(p[0]): nm.c(p[1]) for p in st[1]}
        m.update({nm.c(c): None for c in st[2]})
        new = top.map_columns(m)
    elif op == "order_rows":
        kw = {}
        if len(st[2]) > 0:
            kw["reverse"] = [nm.c(c) for c in st[2]]
        if st[3] != 0:
            kw["limit"] = st[3] if st[3] > 0 else 0      # -1 encodes an explicit limit=0
        new = top.order_rows([nm.c(c) for c in st[1]], **kw)
    elif op in ("join", "joinc"):
        left = stack[-2]
        kw = {"check_all_common_keys_in_equi_spec": True} if op == "joinc" else {}
        new = left.natural_join(b=top, on=[(nm.c(p[0]), nm.c(p[1])) for p in st[2]], jointype=st[1], **kw)
        return stack[:-2] + [new]
    elif op == "concat":
        left = stack[-2]
        new = left.concat_rows(b=top, id_column=(nm.c(st[1]) if st[1] != "" else None), a_name="s0", b_name="s1")
        return stack[:-2] + [new]
    else:
        raise ValueError("unknown step " + str(op))
    return stack[:-1] + [new]


def table_descs(case, nm=IDENT):
    return {t: TableDescription(table_name=nm.t(t), column_names=[nm.c(c) for c in tb["cols"]])
            for t, tb in case["inp"].items()}


def build(case, nm=IDENT, upto=None, record_text=False):
    """replay the builder calls; a rejected step leaves the stack unchanged
    (record_text: keep the printed form of the top pipeline right after each call, b.texts)"""
    descs = table_descs(case, nm)
    stack = [descs["t1"]]
    b = Built()
    b.texts = []
    prog = case["prog"] if upto is None else case["prog"][:upto]
    for st in prog:
        try:
            stack = apply_step(stack, st, descs, nm)
            b.accepted.append(True)
            b.errors.append(None)
        except Exception as ex:  # noqa: BLE001 - any exception at the builder call is a rejection
            b.accepted.append(False)
            b.errors.append("%s: %s" % (type(ex).__name__, str(ex)[:200]))
        b.tops.append(stack[-1])
        if record_text:
            b.texts.append(str(stack[-1]))
    b.final = stack[-1]
    return b


# ------------------------------------------------------------------ projection (the one and only)
def _cell(v):
    if v is None:
        return None
    if isinstance(v, (bool, numpy.bool_)):
        return 1.0 if v else 0.0
    if isinstance(v, str):
        return v
    try:
        if v is pandas.NA or v is pandas.NaT:
            return None
    except Exception:
        pass
    if isinstance(v, (int, numpy.integer)):
        return float(v)
    if isinstance(v, (float, numpy.floating)):
        if math.isnan(v):
            return None
        return float(v)
    return v


def abs_table(df, nm=IDENT):
    """project a backend result to the spec's table form: (cols, rows) with None for missing,
    1.0/0.0 for booleans, floats for numbers; column names mapped back through the naming"""
    if isinstance(df, polars.LazyFrame):
        df = df.collect()
    back = nm.back()
    if isinstance(df, polars.DataFrame):
        cols = [back.get(c, c) for c in df.columns]
        rows = [tuple(_cell(v) for v in r) for r in df.rows()]
        return cols, rows
    cols = [back.get(c, c) for c in df.columns]
    arr = [df[c].tolist() for c in df.columns]
    rows = [tuple(_cell(arr[j][i]) for j in range(len(cols))) for i in range(df.shape[0])]
    return cols, rows


def spec_table(tbl, kinds):
    """spec table (JSON) -> (cols, rows) in the same form as abs_table"""
    cols = list(tbl["cols"])
    rows = []
    for r in tbl["rows"]:
        rows.append(tuple((sval(r[c]) if kinds.get(c, "n") == "s" else nval(r[c])) for c in cols))
    return cols, rows


def _close(a, b):
    if a is None or b is None:
        return a is None and b is None
    if isinstance(a, str) or isinstance(b, str):
        return a == b
    if math.isinf(a) or math.isinf(b):
        return a == b
    return abs(a - b) <= 1e-8 * max(1.0, abs(a), abs(b))


def _key(row):
    return tuple((0, "") if v is None else ((1, v) if isinstance(v, str) else (2, round(v, 6))) for v in row)


def same_table(got, exp, ordered=False, values=True):
    """compare (cols, rows) tables: same column SET; rows as a bag (sequence if ordered)"""
    gc, gr = got
    ec, er = exp
    if set(gc) != set(ec) or len(gc) != len(ec):
        return False, "columns %s != %s" % (gc, ec)
    if not values:
        return True, ""
    if len(gr) != len(er):
        return False, "row count %d != %d" % (len(gr), len(er))
    idx = [gc.index(c) for c in ec]
    g2 = [tuple(r[i] for i in idx) for r in gr]
    e2 = list(er)
    if not ordered:
        try:
            g2 = sorted(g2, key=_key)
            e2 = sorted(e2, key=_key)
        except TypeError:
            return False, "mixed types in a column"
    for a, b in zip(g2, e2):
        for x, y in zip(a, b):
            if not _close(x, y):
                return False, "row %s != %s" % (a, b)
    return True, ""


# ------------------------------------------------------------------ backends
class Backends:
    """one instance per worker process; re-uses one SQLite connection"""

    def __init__(self):
        self.sqlite = data_algebra.SQLite.example_handle()
        self.pg_model = data_algebra.PostgreSQL.PostgreSQLModel()

    def frames(self, case, nm=IDENT, int_cols=(), variant=None):
        k = case["kinds"]
        return {nm.t(t): make_pandas(tb, k, nm, int_cols, variant) for t, tb in case["inp"].items()}

    def pandas(self, ops, case, nm=IDENT, frames=None, variant=None):
        fr = frames if frames is not None else self.frames(case, nm, variant=variant)
        return ops.eval(fr)

    def polars_frames(self, case, nm=IDENT, lazy=False, variant=None):
        k = case["kinds"]
        fr = {nm.t(t): make_polars(tb, k, nm, variant) for t, tb in case["inp"].items()}
        if lazy:
            fr = {t: f.lazy() for t, f in fr.items()}
        return fr

    def polars(self, ops, case, nm=IDENT, lazy=False, variant=None):
        res = ops.eval(self.polars_frames(case, nm, lazy, variant))
        if isinstance(res, polars.LazyFrame):
            res = res.collect()
        return res

    def load_sqlite(self, case, nm=IDENT, frames=None, variant=None):
        fr = frames if frames is not None else self.frames(case, nm, variant=(variant if variant == "extracol" else "perm" if variant else None))
        for t, f in fr.items():
            self.sqlite.insert_table(f, table_name=t, allow_overwrite=True)

    def sqlite_query(self, ops, sql_format_options=None, loaded=False, case=None, nm=IDENT):
        if not loaded:
            self.load_sqlite(case, nm)
        if sql_format_options is None:
            return self.sqlite.read_query(ops)
        sql = self.sqlite.db_model.to_sql(ops, sql_format_options=sql_format_options)
        return self.sqlite.read_query(sql)

    def sql_text(self, ops, dialect="sqlite", sql_format_options=None):
        model = self.sqlite.db_model if dialect == "sqlite" else self.pg_model
        if sql_format_options is None:
            return model.to_sql(ops)
        return model.to_sql(ops, sql_format_options=sql_format_options)

    def run_sql(self, sql):
        return self.sqlite.read_query(sql)
