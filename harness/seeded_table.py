"""Write seeded/<id>/meta.json from the agent's description + what was run, and print the detection table.
usage: seeded_table.py <results files...>   (lines "<seed> <check> exit=<n> ..." from mutant_run.sh)"""
import glob
import json
import os
import re
import sys

VERIF = os.path.dirname(os.path.dirname(os.path.abspath(__file__)))
results = {}
for fn in sys.argv[1:]:
    for line in open(fn):
        m = re.match(r"^(C\d\d_m\d) (C\d\d) exit=(\d+) violations_listed=(\d+)", line)
        if m:
            results.setdefault(m.group(1), {})[m.group(2)] = int(m.group(3))      # later files override earlier ones
rows = []
for d in sorted(glob.glob(os.path.join(VERIF, "seeded", "C*_m*"))):
    sid = os.path.basename(d)
    agent = json.load(open(os.path.join(d, "meta_agent.json")))
    res = results.get(sid, {})
    caught = sorted(c for c, rc in res.items() if rc == 1)
    missed = sorted(c for c, rc in res.items() if rc == 0)
    meta = {
        "id": sid,
        "property": agent.get("property", sid[:3]),
        "title": agent.get("title"),
        "files": agent.get("files"),
        "what": agent.get("what"),
        "needs": agent.get("needs"),
        "origin": "written by a fresh sub-agent that saw only the property text and a scratch worktree of /repo (nothing from /verif)",
        "confirmed": {"demo": "harness/seeded_confirm.sh: demo.py exits 0 on the clean tree and 1 with patch.diff applied",
                      "suite": agent.get("suite", "passed 349 baseline 349 missing 0") + " (re-run by harness/run_baseline.sh with the patch applied)"},
        "checks_run": {c: ("VIOLATION reported" if rc == 1 else "not detected" if rc == 0 else "machinery failure") for c, rc in sorted(res.items())},
        "how_run": "harness/mutant_run.sh seeded/%s/patch.diff quick <check>  (patch applied in a scratch worktree of /repo, VERIF_REPO points the check at it)" % sid,
    }
    if os.path.exists(os.path.join(d, "note.txt")):
        meta["note"] = open(os.path.join(d, "note.txt")).read().strip()
    json.dump(meta, open(os.path.join(d, "meta.json"), "w"), indent=1)
    rows.append((sid, meta["property"], (agent.get("title") or "")[:95], ", ".join(caught) or "-", ", ".join(missed) or ""))
print("| seeded change | property | what it does | caught by (quick tier) | run but not detected |")
print("|---|---|---|---|---|")
for r in rows:
    print("| %s | %s | %s | %s | %s |" % r)
print()
print("%d seeded changes, %d detected by at least one check" % (len(rows), sum(1 for r in rows if r[3] != "-")))
