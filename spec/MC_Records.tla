---- MODULE MC_Records ----
EXTENDS Records
MC_Vals == {1, 2}
MC_Vals3 == {0, 1, 2}
====
