---- MODULE MC_Schema ----
EXTENDS Schema
I1 == <<"int", 1>>
F1 == <<"float", 1>>
S1 == <<"str", 1>>
B1 == <<"bool", 1>>
MC_AVals == {I1, F1, S1, B1}
MC_ASpecs == {<<"none">>, <<"type", "int">>, <<"type", "float">>, <<"type", "str">>, <<"type", "bool">>,
              <<"types", {"int", "str"}>>, <<"ex", I1>>, <<"ex", S1>>, <<"ex", B1>>, <<"exs", {I1, S1}>>, <<"exs", {F1}>>}
Fr(cols) == <<"frame", cols>>
FA == Fr(<< <<"x", <<F1, NULLV>> >> >>)
FB == Fr(<< <<"x", <<F1>> >>, <<"y", <<S1>> >> >>)
FC == Fr(<< <<"x", <<I1, I1>> >> >>)
FD == Fr(<< <<"x", <<S1, F1>> >> >>)
FE == Fr(<< <<"x", <<>> >>, <<"y", <<>> >> >>)
FF == Fr(<< <<"y", <<S1>> >> >>)
MC_BVals == {FA, FB, FC, FD, FE, FF}
MC_BSpecs == {<<"none">>, <<"cols", <<"x", <<"none">> >> >>, <<"cols", <<"x", <<"type", "float">> >> >>,
              <<"cols", <<"x", <<"ex", F1>> >>, <<"y", <<"type", "str">> >> >>,
              <<"cols", <<"x", <<"exs", {I1, S1}>> >> >>, <<"cols", <<"x", <<"types", {"int", "float"}>> >> >>,
              <<"type", "int">>}
MC_RVals == {I1, S1, FA}
MC_RSpecs == {<<"none">>, <<"type", "int">>, <<"exs", {I1, S1}>>, <<"cols", <<"x", <<"type", "float">> >> >>}
NoDev == {}
DevSet == {"schema_set_not_normalised"}
====
