SPECIFICATION Spec
CONSTANTS
  NULL = NULL
  TabCols <- MC_TabCols
  ColVals <- MC_ColVals
  Kind <- MC_Kind
  MaxRows = 2
  MaxSteps = 1
  Backends <- NoBackends
  DevOf <- NoDevOf
  Level = 1
  GenBad = FALSE
  SampleK = 0
  EmitOneIn = 1
  Focus <- FocusAll
INVARIANT DeclaredCols
INVARIANT HistOK
INVARIANT StepLaw
INVARIANT PermLaw
CHECK_DEADLOCK FALSE
