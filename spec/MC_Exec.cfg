SPECIFICATION Spec
CONSTANTS
  NULL = NULL
  PINF = PINF
  NINF = NINF
  TabCols <- MC_TabCols
  ColVals <- MC_ColVals
  Kind <- MC_Kind
  MaxRows = 2
  MaxSteps = 1
  Backends <- NoBackends
  DevOf <- NoDevOf
  Level = 1
  GenBad = FALSE
  SampleK = 0
  EmitOneIn = 1
  Focus <- FocusAll
  BDev <- NoBDev
  EmitSel = "all"
INVARIANT DeclaredCols
INVARIANT HistOK
INVARIANT StepLaw
INVARIANT PermLaw
INVARIANT Irrelevance
INVARIANT BuilderMeaning
INVARIANT BuilderAcceptance
CHECK_DEADLOCK FALSE
