-------------------------- MODULE Trace_OrderedSet --------------------------
(***************************************************************************)
(* Validates histories recorded from the real data_algebra.OrderedSet       *)
(* against OrderedSet.tla.  The trace file (IOEnv.TRACE_FILE) holds a JSON  *)
(* list of traces; a trace is a list of events                              *)
(*   [call, ok, after, ret, rset]                                           *)
(* logged after each public call returned (or raised).  One initial state   *)
(* per trace (tid); an event that the machine cannot take with exactly the  *)
(* logged outcome is reported as "REJ <tid> <event index>".                 *)
(***************************************************************************)
EXTENDS Integers, Sequences, FiniteSets, TLC, Json, IOUtils, SequencesExt

CONSTANT NONE
VARIABLES s, nops, hist
INSTANCE OrderedSet WITH Elems <- {}, MaxOps <- 0, MaxArg <- 0

Traces == JsonDeserialize(IOEnv.TRACE_FILE)

VARIABLES tid, l, verdict
tvars == <<tid, l, verdict, s, nops, hist>>

TInit == /\ tid \in 1..Len(Traces) /\ l = 1 /\ verdict = "run"
         /\ s = <<>> /\ nops = 0 /\ hist = <<>>

SameSet(a, b) == AsSet(a) = AsSet(b) /\ NoDup(a)
Matches(ev) ==
  LET c == ev.call IN
  IF c[1] = "pop" /\ s # <<>>
    THEN ev.ok /\ In(ev.ret, s) /\ ev.after = DelE(s, ev.ret)
    ELSE LET r == Apply(c, s) IN
         /\ ev.ok = r.ok
         /\ ev.after = r.s
         /\ (c[1] \in {"contains", "len", "issubset", "issuperset"} => ev.ret = r.ret)
         /\ (r.rset # NONE => IF r.rord THEN ev.rset = r.rset ELSE SameSet(ev.rset, r.rset))

TStep ==
  /\ verdict = "run"
  /\ l <= Len(Traces[tid])
  /\ LET ev == Traces[tid][l] IN
       IF Matches(ev)
         THEN /\ s' = ev.after /\ l' = l + 1 /\ UNCHANGED verdict
         ELSE /\ verdict' = "rejected" /\ UNCHANGED <<s, l>>
              /\ PrintT("REJ " \o ToString(tid) \o " " \o ToString(l))
  /\ UNCHANGED <<tid, nops, hist>>
TDone ==
  /\ verdict = "run" /\ l > Len(Traces[tid])
  /\ verdict' = "accepted"
  /\ PrintT("ACC " \o ToString(tid))
  /\ UNCHANGED <<tid, l, s, nops, hist>>
TNext == TStep \/ TDone
TSpec == TInit /\ [][TNext]_tvars
\* every state reached while validating satisfies the machine's invariants
TNoDuplicates == NoDup(s)
=============================================================================
