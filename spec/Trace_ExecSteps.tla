-------------------------- MODULE Trace_ExecSteps --------------------------
(***************************************************************************)
(* Code -> spec: validates step events recorded by the hooks in             *)
(* PandasModelBase._eval_value_source and PolarsModel._compose_polars_ops   *)
(* (data_algebra/_verif_trace.py, guard DATA_ALGEBRA_VERIF=1; Polars events *)
(* carry backend = "polars").  One event per operator node evaluated:       *)
(*   [kind, ok, declared, out_cols, out_rows, in_rows, group_by, n_groups,  *)
(*    n_groups_nonnull, limit, jointype, alias, depth, seq]                 *)
(* A trace is the post-order sequence of events of ONE evaluation.  Every   *)
(* event must satisfy the step-shape laws of the reference semantics        *)
(* (the per-step part of StepLaw / DeclaredCols of Exec.tla):               *)
(*   C08  the result of every node has exactly its declared columns         *)
(*   C09  extend keeps rows; project returns one row per distinct key       *)
(*        tuple (NULL is a key value), exactly one without grouping          *)
(*   C18  order_rows with limit returns min(limit, rows)                    *)
(*   C16  row-count bounds of each join type; concat adds up                *)
(*   C19  a table step never hands the caller's own frame downstream        *)
(* and the events of a trace must form a well-formed post-order walk.       *)
(***************************************************************************)
EXTENDS Integers, Sequences, FiniteSets, TLC, Json, IOUtils

Traces == JsonDeserialize(IOEnv.TRACE_FILE)
VARIABLES tid, l, verdict
tvars == <<tid, l, verdict>>

SetOf(q) == {q[i] : i \in 1..Len(q)}
NoDup(q) == \A i, j \in 1..Len(q) : i # j => q[i] # q[j]
Min2(a, b) == IF a <= b THEN a ELSE b
Max2(a, b) == IF a >= b THEN a ELSE b
Unary == {"ExtendNode", "ProjectNode", "SelectRowsNode", "SelectColumnsNode", "DropColumnsNode", "RenameColumnsNode",
          "MapColumnsNode", "OrderRowsNode", "ConvertRecordsNode"}
Binary == {"NaturalJoinNode", "ConcatRowsNode"}
Arity(e) == IF e.kind \in Unary THEN 1 ELSE IF e.kind \in Binary THEN 2 ELSE 0

ColsLaw(e) == NoDup(e.out_cols) /\ SetOf(e.out_cols) = SetOf(e.declared)
\* the Polars hook reports -1 for a row count it could not observe (a lazy intermediate that does not collect alone)
Known(e) == e.out_rows >= 0 /\ \A i \in 1..Len(e.in_rows) : e.in_rows[i] >= 0
RowsLaw(e) == ~Known(e) \/
  CASE e.kind = "ExtendNode" -> e.out_rows = e.in_rows[1]
    [] e.kind = "ProjectNode" -> e.out_rows = (IF Len(e.group_by) = 0 THEN 1 ELSE e.n_groups)
    [] e.kind = "SelectRowsNode" -> e.out_rows <= e.in_rows[1]
    [] e.kind \in {"SelectColumnsNode", "DropColumnsNode", "RenameColumnsNode", "MapColumnsNode"} -> e.out_rows = e.in_rows[1]
    [] e.kind = "OrderRowsNode" -> e.out_rows = (IF e.limit < 0 THEN e.in_rows[1] ELSE Min2(e.limit, e.in_rows[1]))
    [] e.kind = "ConcatRowsNode" -> e.out_rows = e.in_rows[1] + e.in_rows[2]
    [] e.kind = "NaturalJoinNode" ->
         LET a == e.in_rows[1] b == e.in_rows[2] IN
         CASE e.jointype = "INNER" -> e.out_rows <= a * b
           [] e.jointype = "CROSS" -> e.out_rows = a * b
           [] e.jointype = "LEFT"  -> e.out_rows >= a /\ e.out_rows <= Max2(a, a * b)
           [] e.jointype = "RIGHT" -> e.out_rows >= b /\ e.out_rows <= Max2(b, a * b)
           [] OTHER -> e.out_rows >= Max2(a, b) /\ e.out_rows <= a + b + a * b
    [] e.kind = "TableDescription" -> ~e.alias
    [] OTHER -> TRUE
\* post-order walk: a node's inputs are reported by the hook (in_rows) exactly when they were evaluated
WalkLaw(e) == (e.ok /\ Arity(e) > 0) => Len(e.in_rows) = Arity(e)
Why(e) == IF ~e.ok THEN "ACC"
          ELSE IF ~WalkLaw(e) THEN "REJ walk"
          ELSE IF ~ColsLaw(e) THEN "REJ columns"
          ELSE IF ~RowsLaw(e) THEN "REJ rows"
          ELSE "ACC"

TInit == tid \in 1..Len(Traces) /\ l = 1 /\ verdict = "run"
TStep ==
  /\ verdict = "run"
  /\ IF l > Len(Traces[tid])
       THEN /\ verdict' = "accepted" /\ PrintT("ACC " \o ToString(tid)) /\ UNCHANGED l
       ELSE LET w == Why(Traces[tid][l]) IN
            IF w = "ACC" THEN l' = l + 1 /\ UNCHANGED verdict
            ELSE /\ verdict' = "rejected" /\ UNCHANGED l
                 /\ PrintT(w \o " " \o ToString(tid) \o " " \o ToString(l))
  /\ UNCHANGED tid
TSpec == TInit /\ [][TStep]_tvars
=============================================================================
