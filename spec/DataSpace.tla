------------------------------ MODULE DataSpace ------------------------------
(***************************************************************************)
(* C20: a data space is a keyed store of tables.                            *)
(*                                                                          *)
(* State machine with one action per public call of data_space.DataSpace    *)
(* (insert, execute, remove, retrieve, describe, keys); both space kinds    *)
(* (DataModelSpace over frames, DBSpace over a database) are instances.     *)
(* A table value is abstracted to [cells |-> the cells of its column x,      *)
(* wide |-> whether it has a second column y] (two schemas, so that a       *)
(* space's table DESCRIPTIONS can go stale); pipelines are built from       *)
(* describe(k) and executed in the space:                                   *)
(*   <<"copy", k>>        the table stored under k                          *)
(*   <<"inc", k>>         .extend({'x': 'x + 1'})                            *)
(*   <<"cat", k1, k2>>    k1.concat_rows(k2)                                 *)
(* Named deviations (Dev) model what the code is known to do instead:       *)
(*   "auto_key_collision"      the automatic key is da_temp_<n+1> whether or *)
(*                             not that key is already in use        (D12)  *)
(*   "dbspace_drop_before_eval" DBSpace.execute removes the target key       *)
(*                             before evaluating the pipeline         (D19) *)
(***************************************************************************)
EXTENDS Integers, Sequences, FiniteSets, TLC, Json

CONSTANTS Keys,        \* user-chosen keys (strings); auto keys are da_temp_<n>
          Vals,        \* table values users insert
          MaxOps,      \* history bound
          Dev,         \* set of deviation names
          MaxLen,      \* pipelines whose result would have more than MaxLen rows are not generated
          KeepHist,    \* TRUE: hist is the whole history (emission); FALSE: only the last two entries (model checking)
          NONE

AutoName(n) == "da_temp_" \o ToString(n)
AutoKeys == {AutoName(n) : n \in 1..(MaxOps + 1)}
AllKeys == Keys \cup AutoKeys

VARIABLES store,      \* key -> table value or NONE
          ntmp,       \* counter behind automatic keys
          nops,       \* number of calls so far
          hist        \* sequence of [call, outcome, observation]
vars == <<store, ntmp, nops, hist>>

Dom(s) == {k \in AllKeys : s[k] # NONE}
Init == store = [k \in AllKeys |-> NONE] /\ ntmp = 0 /\ nops = 0 /\ hist = <<>>

\* ---------------------------------------------------------------- pipelines
Pipes == {<<"copy", k>> : k \in Keys} \cup {<<"inc", k>> : k \in Keys}
         \cup {<<"cat", k1, k2>> : k1 \in Keys, k2 \in Keys}
Reads(p) == IF p[1] = "cat" THEN {p[2], p[3]} ELSE {p[2]}
\* concat_rows needs the same columns on both sides
CanEval(p, s) == Reads(p) \subseteq Dom(s) /\ (p[1] = "cat" => s[p[2]].wide = s[p[3]].wide)
Eval(p, s) ==
  CASE p[1] = "copy" -> s[p[2]]
    [] p[1] = "inc"  -> [cells |-> [i \in 1..Len(s[p[2]].cells) |-> s[p[2]].cells[i] + 1], wide |-> s[p[2]].wide]
    [] p[1] = "cat"  -> [cells |-> s[p[2]].cells \o s[p[3]].cells, wide |-> s[p[2]].wide]

\* ---------------------------------------------------------------- automatic keys
\* reference: an automatic key is a key not in use (the smallest free generated name from the counter on)
RECURSIVE FreshFrom(_, _)
FreshFrom(n, s) == IF AutoName(n) \notin Dom(s) THEN n ELSE FreshFrom(n + 1, s)
AutoNum(s) == IF "auto_key_collision" \in Dev THEN ntmp + 1 ELSE FreshFrom(ntmp + 1, s)

Obs(s) == [keys |-> Dom(s), tables |-> [k \in Dom(s) |-> s[k]]]
Log(call, ok, s, ret) ==
  LET h == Append(hist, [call |-> call, ok |-> ok, obs |-> Obs(s), ret |-> ret]) IN
  /\ nops' = nops + 1
  /\ hist' = IF KeepHist \/ Len(h) <= 2 THEN h ELSE SubSeq(h, Len(h) - 1, Len(h))

\* ---------------------------------------------------------------- actions
\* insert(key=k, value=v, allow_overwrite=ow); k = NONE asks for an automatic key
Insert(k, v, ow) ==
  LET auto == k = NONE
      n    == AutoNum(store)
      key  == IF auto THEN AutoName(n) ELSE k
      ok   == ow \/ key \notin Dom(store)
      ns   == IF ok THEN [store EXCEPT ![key] = v] ELSE store
  IN /\ nops < MaxOps
     /\ (auto => n <= MaxOps + 1)
     /\ store' = ns
     /\ ntmp' = IF auto THEN n ELSE ntmp
     /\ Log(<<"insert", k, v, ow>>, ok, ns, IF ok THEN key ELSE NONE)

\* execute(ops=p, key=k, allow_overwrite=ow): stores the pipeline's result ON THE CURRENT CONTENTS
Execute(p, k, ow) ==
  LET auto == k = NONE
      n    == AutoNum(store)
      key  == IF auto THEN AutoName(n) ELSE k
      allowed == ow \/ key \notin Dom(store)
      \* D19: the database-backed space drops the target before evaluating the pipeline
      seen == IF "dbspace_drop_before_eval" \in Dev /\ allowed /\ key \in Dom(store)
                THEN [store EXCEPT ![key] = NONE] ELSE store
      ok   == allowed /\ CanEval(p, seen)
      ns   == IF ok THEN [store EXCEPT ![key] = Eval(p, seen)]
              ELSE IF allowed THEN seen ELSE store
  IN /\ nops < MaxOps
     /\ (auto => n <= MaxOps + 1)
     /\ store' = ns
     \* a pipeline that cannot be built from the current descriptions never reaches execute(): no key is consumed
     /\ ntmp' = IF auto /\ ok THEN n ELSE ntmp
     /\ Log(<<"execute", p, k, ow>>, ok, ns, IF ok THEN key ELSE NONE)

Remove(k) ==
  LET ok == k \in Dom(store)
      ns == IF ok THEN [store EXCEPT ![k] = NONE] ELSE store
  IN /\ nops < MaxOps
     /\ store' = ns /\ UNCHANGED ntmp
     /\ Log(<<"remove", k>>, ok, ns, NONE)

Retrieve(k) ==
  /\ nops < MaxOps
  /\ UNCHANGED <<store, ntmp>>
  /\ Log(<<"retrieve", k>>, k \in Dom(store), store, IF k \in Dom(store) THEN store[k] ELSE NONE)

Next ==
  \/ \E k \in Keys \cup {NONE}, v \in Vals, ow \in BOOLEAN : Insert(k, v, ow)
  \/ \E p \in Pipes, k \in Keys \cup {NONE}, ow \in BOOLEAN :
        /\ (CanEval(p, store) => Len(Eval(p, store).cells) <= MaxLen)
        /\ Execute(p, k, ow)
  \/ \E k \in Keys : Remove(k)
  \/ \E k \in Keys : Retrieve(k)
Spec == Init /\ [][Next]_vars

\* ---------------------------------------------------------------- properties (C20)
Last == hist[Len(hist)]
PrevDom == IF Len(hist) <= 1 THEN {} ELSE hist[Len(hist) - 1].obs.keys
PrevTables == IF Len(hist) <= 1 THEN <<>> ELSE hist[Len(hist) - 1].obs.tables
IsWrite(c) == c[1] \in {"insert", "execute"}
KeyArg(c) == IF c[1] = "insert" THEN c[2] ELSE c[3]
OwArg(c) == c[4]
\* an automatically named entry never replaces an existing one
AutoNeverReplaces ==
  (Len(hist) > 0 /\ IsWrite(Last.call) /\ KeyArg(Last.call) = NONE /\ Last.ok) => Last.ret \notin PrevDom
\* a write with allow_overwrite=False never replaces an existing entry
NoOverwriteWhenDisallowed ==
  (Len(hist) > 0 /\ IsWrite(Last.call) /\ ~OwArg(Last.call)) =>
     \A k \in PrevDom : k \in Last.obs.keys /\ Last.obs.tables[k] = PrevTables[k]
\* keys() and retrieve() reflect exactly the successful operations: a failed call changes nothing
FailureAtomic ==
  (Len(hist) > 0 /\ ~Last.ok) => (Last.obs.keys = PrevDom /\ \A k \in PrevDom : Last.obs.tables[k] = PrevTables[k])
\* a successful write changes exactly its own key
WriteIsLocal ==
  (Len(hist) > 0 /\ IsWrite(Last.call) /\ Last.ok) =>
     /\ Last.obs.keys = PrevDom \cup {Last.ret}
     /\ \A k \in PrevDom \ {Last.ret} : Last.obs.tables[k] = PrevTables[k]
RemoveIsLocal ==
  (Len(hist) > 0 /\ Last.call[1] = "remove" /\ Last.ok) =>
     /\ Last.obs.keys = PrevDom \ {Last.call[2]}
     /\ \A k \in Last.obs.keys : Last.obs.tables[k] = PrevTables[k]
TypeOK == ntmp \in 0..(MaxOps + 1) /\ DOMAIN store = AllKeys

\* ---------------------------------------------------------------- emission (spec -> code)
Emit == (nops = MaxOps) => PrintT("CASE " \o ToJson([hist |-> hist]))
=============================================================================
