---------------------------- MODULE Trace_SqlGen ----------------------------
(***************************************************************************)
(* The WITH-sequencing state machine of SQL generation                      *)
(* (near_sql.NearSQLContainer.to_with_form_stub) and its cache of common    *)
(* table expressions (C04: "CTE elimination ... may change the SQL text but *)
(* never its result").                                                      *)
(*                                                                          *)
(* State: cache = the set of [key, name, sig] entries emitted so far for    *)
(* this statement (key = the code's ops_key + requested columns, name = the *)
(* CTE name, sig = the CONTENT of the step: its terms, suffix and the names *)
(* it reads from).  Actions, one per recorded event:                        *)
(*   Emit(key, name, sig, refs, defined)   a new CTE is appended            *)
(*   Hit(key, name, sig)                   an earlier CTE is re-used        *)
(* Laws:                                                                    *)
(*   UniqueNames     a CTE name is defined once in its sequence             *)
(*   DefBeforeUse    every CTE a step reads from is defined before it       *)
(*   MissOnlyIfAbsent with the cache on, a key is emitted at most once      *)
(*   HitSameMeaning  a hit returns the CTE emitted for the same key AND     *)
(*                   that CTE has the content the requested step has        *)
(*                   (otherwise re-use changes the result: the repaired     *)
(*                   defect D10 kept a stale key after an in-place merge)   *)
(* Traces: the events of one statement (one cache) in recorded order.       *)
(***************************************************************************)
EXTENDS Integers, Sequences, FiniteSets, TLC, Json, IOUtils

Traces == JsonDeserialize(IOEnv.TRACE_FILE)
VARIABLES tid, l, cache, verdict
tvars == <<tid, l, cache, verdict>>

SetOf(q) == {q[i] : i \in 1..Len(q)}
Count(q, x) == Cardinality({i \in 1..Len(q) : q[i] = x})
Why(e) ==
  IF e.sqlgen = "emit" THEN
       IF Count(e.defined, e.name) # 1 THEN "REJ UniqueNames"
       \* a step may read from CTEs of its own sequence or from CTEs emitted earlier in this statement (after a cache hit)
       ELSE IF ~(SetOf(e.refs) \subseteq (SetOf(e.defined) \cup {c.name : c \in cache})) THEN "REJ DefBeforeUse"
       ELSE IF e.cache # 0 /\ \E c \in cache : c.key = e.key THEN "REJ MissOnlyIfAbsent"
       ELSE "ACC"
  ELSE \* hit
       IF ~(\E c \in cache : c.key = e.key /\ c.name = e.name) THEN "REJ HitOnlyIfEmitted"
       ELSE IF ~(\E c \in cache : c.key = e.key /\ c.name = e.name /\ c.sig = e.sig) THEN "REJ HitSameMeaning"
       ELSE "ACC"
TInit == tid \in 1..Len(Traces) /\ l = 1 /\ cache = {} /\ verdict = "run"
TStep ==
  /\ verdict = "run"
  /\ IF l > Len(Traces[tid])
       THEN /\ verdict' = "accepted" /\ PrintT("ACC " \o ToString(tid)) /\ UNCHANGED <<l, cache>>
       ELSE LET e == Traces[tid][l] w == Why(e) IN
            IF w = "ACC"
              THEN /\ l' = l + 1 /\ UNCHANGED verdict
                   /\ cache' = IF e.sqlgen = "emit" THEN cache \cup {[key |-> e.key, name |-> e.name, sig |-> e.sig]} ELSE cache
              ELSE /\ verdict' = "rejected" /\ UNCHANGED <<l, cache>>
                   /\ PrintT(w \o " " \o ToString(tid) \o " " \o ToString(l))
  /\ UNCHANGED tid
TSpec == TInit /\ [][TStep]_tvars
=============================================================================
