------------------------------ MODULE MC_Expr ------------------------------
EXTENDS Expr
NoDev == {}
DevCmpChain == {"cmp_chain_linear"}
DevNegBase == {"neg_base_unparen"}
DevBoth == {"cmp_chain_linear", "neg_base_unparen"}
=============================================================================
