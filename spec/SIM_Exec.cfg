SPECIFICATION Spec
CONSTANTS
  NULL = NULL
  PINF = PINF
  NINF = NINF
  TabCols <- SIM_TabCols
  ColVals <- SIM_ColVals
  Kind <- MC_Kind
  MaxRows = 3
  MaxSteps = 3
  Backends <- AllBackends
  DevOf <- AllDevOf
  Level = 2
  GenBad = FALSE
  SampleK = 6
  EmitOneIn = 1
  Focus <- FocusAll
  BDev <- NoBDev
  EmitSel = "all"
INVARIANT Emit
CHECK_DEADLOCK FALSE
