---------------------------- MODULE OrderedSetInd ----------------------------
(***************************************************************************)
(* Unbounded-history argument for C24 with Apalache: NoDup is an INDUCTIVE  *)
(* invariant of the ordered-set machine (it holds initially and every       *)
(* action preserves it from ANY state satisfying it, not only from states   *)
(* reachable within TLC's history bound).  The actions are the mutating     *)
(* operations of OrderedSet.tla over elements 1..4.                         *)
(*   apalache-mc check --init=IndInit --inv=IndInv --length=1 OrderedSetInd.tla *)
(*   apalache-mc check --init=Init --inv=IndInv --length=0 OrderedSetInd.tla    *)
(***************************************************************************)
EXTENDS Integers, Sequences, Apalache

VARIABLE
  \* @type: Seq(Int);
  s

Elems == 1..4
\* @type: (Seq(Int), Int) => Bool;
In(q, e) == \E i \in DOMAIN q : q[i] = e
\* @type: Seq(Int) => Bool;
NoDup(q) == \A i, j \in DOMAIN q : i # j => q[i] # q[j]
\* @type: (Seq(Int), Int) => Seq(Int);
AddE(q, e) == IF In(q, e) THEN q ELSE Append(q, e)
\* @type: (Seq(Int), Int) => Seq(Int);
DelE(q, e) == SelectSeq(q, LAMBDA x : x # e)

Init == s = <<>>
\* any duplicate-free sequence of at most 4 elements over Elems (all there are)
IndInit == /\ s = Gen(4)
           /\ \A i \in DOMAIN s : s[i] \in Elems
           /\ NoDup(s)
Add == \E e \in Elems : s' = AddE(s, e)
Discard == \E e \in Elems : s' = DelE(s, e)
Pop == Len(s) > 0 /\ \E e \in Elems : In(s, e) /\ s' = DelE(s, e)
Clear == s' = <<>>
\* x ^= {e}: toggles membership
Toggle == \E e \in Elems : s' = IF In(s, e) THEN DelE(s, e) ELSE Append(s, e)
\* x &= S, x -= S for a set S of elements
Keep == \E S \in SUBSET Elems : s' = SelectSeq(s, LAMBDA x : x \in S)
Drop == \E S \in SUBSET Elems : s' = SelectSeq(s, LAMBDA x : x \notin S)
Next == Add \/ Discard \/ Pop \/ Clear \/ Toggle \/ Keep \/ Drop
IndInv == NoDup(s) /\ \A i \in DOMAIN s : s[i] \in Elems
=============================================================================
