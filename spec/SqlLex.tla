------------------------------- MODULE SqlLex -------------------------------
(***************************************************************************)
(* C14: generated SQL carries every literal and identifier verbatim.        *)
(*                                                                          *)
(* (A) Lexical structure of five SQL dialects as a character-at-a-time      *)
(*     automaton LexStep (written from the vendors' lexical documentation): *)
(*       sqlite, pg : '...' strings with '' doubling, "..." identifiers     *)
(*                    with "" doubling, no backslash escapes                 *)
(*       mysql      : '...' and "..." strings, doubling AND backslash        *)
(*                    escapes, `...` identifiers, # comments                 *)
(*       spark      : '...' and "..." strings, backslash escapes, adjacent   *)
(*                    literals are separate tokens (no doubling), `...` ids  *)
(*       bigquery   : as spark, backslash escapes also inside `...`, #       *)
(*     all: -- line comments, slash-star block comments.                     *)
(*     Characters are integer codes.  A text is read into its SHAPE (the     *)
(*     sequence of token kinds: w word run, s string, i quoted identifier,   *)
(*     c comment) and the values of its string and identifier tokens.        *)
(* (B) QuoteString / QuoteIdent as coded in sql_model.py (only the string    *)
(*     quote is doubled; identifiers are wrapped) - deviation                *)
(*     "quote_doubling_only" (D15); with Dev = {} the quoting a dialect      *)
(*     actually needs.                                                       *)
(* Model level: every short string over the dangerous characters reads back  *)
(* as exactly one literal with exactly its value (ReadBack).                 *)
(* Trace level (Trace_SqlLex): the REAL output of quote_string /             *)
(* quote_identifier / to_sql is lexed by the same automaton.                 *)
(***************************************************************************)
EXTENDS Integers, Sequences, FiniteSets, TLC

SQ == 39     \* '
DQ == 34     \* "
BT == 96     \* `
BS == 92     \* backslash
NL == 10
CR == 13
DASH == 45
HASH == 35
SLASH == 47
STAR == 42
SP == 32
TAB == 9

Dialects == {"sqlite", "pg", "mysql", "spark", "bigquery"}
StrQuotes(d) == IF d \in {"sqlite", "pg"} THEN {SQ} ELSE {SQ, DQ}
IdQuotes(d)  == IF d \in {"sqlite", "pg"} THEN {DQ} ELSE {BT}
BackslashEsc(d) == d \in {"mysql", "spark", "bigquery"}
Doubling(d) == d \in {"sqlite", "pg", "mysql"}
HashComment(d) == d \in {"mysql", "bigquery"}
IdBackslash(d) == d = "bigquery"
IsSpace(c) == c \in {SP, NL, CR, TAB}
\* the character an escape sequence stands for (the ones the generator could meet)
Unescape(c) == CASE c = 110 -> NL [] c = 116 -> TAB [] c = 114 -> CR [] c = 48 -> 0 [] OTHER -> c

(***************************************************************************)
(* lexer state                                                             *)
(***************************************************************************)
L0 == [mode |-> "code", q |-> 0, val |-> <<>>, inword |-> FALSE, kinds |-> <<>>, strs |-> <<>>, ids |-> <<>>, bad |-> FALSE]
EndWord(L) == [L EXCEPT !.inword = FALSE]
Kind(L, k) == [L EXCEPT !.kinds = Append(@, k), !.inword = FALSE]
CloseStr(L) == [Kind(L, "s") EXCEPT !.strs = Append(@, L.val), !.mode = "code", !.val = <<>>]
CloseId(L)  == [Kind(L, "i") EXCEPT !.ids = Append(@, L.val), !.mode = "code", !.val = <<>>]
RECURSIVE LexStep(_, _, _)
LexStep(d, L, c) ==
  CASE L.mode = "code" ->
         IF c \in StrQuotes(d) THEN [L EXCEPT !.mode = "str", !.q = c, !.val = <<>>, !.inword = FALSE]
         ELSE IF c \in IdQuotes(d) THEN [L EXCEPT !.mode = "id", !.q = c, !.val = <<>>, !.inword = FALSE]
         ELSE IF c = DASH THEN [L EXCEPT !.mode = "dash"]
         ELSE IF c = SLASH THEN [L EXCEPT !.mode = "slash"]
         ELSE IF c = HASH /\ HashComment(d) THEN [Kind(L, "c") EXCEPT !.mode = "lc"]
         ELSE IF IsSpace(c) THEN EndWord(L)
         ELSE IF L.inword THEN L ELSE [Kind(L, "w") EXCEPT !.inword = TRUE]
    [] L.mode = "dash" ->
         IF c = DASH THEN [Kind(L, "c") EXCEPT !.mode = "lc"]
         ELSE LexStep(d, [(IF L.inword THEN L ELSE [Kind(L, "w") EXCEPT !.inword = TRUE]) EXCEPT !.mode = "code"], c)
    [] L.mode = "slash" ->
         IF c = STAR THEN [Kind(L, "c") EXCEPT !.mode = "bc"]
         ELSE LexStep(d, [(IF L.inword THEN L ELSE [Kind(L, "w") EXCEPT !.inword = TRUE]) EXCEPT !.mode = "code"], c)
    [] L.mode = "lc" -> IF c = NL THEN [L EXCEPT !.mode = "code"] ELSE L
    [] L.mode = "bc" -> IF c = STAR THEN [L EXCEPT !.mode = "bcstar"] ELSE L
    [] L.mode = "bcstar" -> IF c = SLASH THEN [L EXCEPT !.mode = "code"] ELSE IF c = STAR THEN L ELSE [L EXCEPT !.mode = "bc"]
    [] L.mode = "str" ->
         IF c = BS /\ BackslashEsc(d) THEN [L EXCEPT !.mode = "stresc"]
         ELSE IF c = L.q THEN (IF Doubling(d) THEN [L EXCEPT !.mode = "strq"] ELSE CloseStr(L))
         ELSE [L EXCEPT !.val = Append(@, c)]
    [] L.mode = "stresc" -> [L EXCEPT !.mode = "str", !.val = Append(@, Unescape(c))]
    [] L.mode = "strq" ->           \* a quote inside a string: doubled quote, or the end of the literal
         IF c = L.q THEN [L EXCEPT !.mode = "str", !.val = Append(@, c)]
         ELSE LexStep(d, CloseStr(L), c)
    [] L.mode = "id" ->
         IF c = BS /\ IdBackslash(d) THEN [L EXCEPT !.mode = "idesc"]
         ELSE IF c = L.q THEN [L EXCEPT !.mode = "idq"]
         ELSE [L EXCEPT !.val = Append(@, c)]
    [] L.mode = "idesc" -> [L EXCEPT !.mode = "id", !.val = Append(@, Unescape(c))]
    [] L.mode = "idq" ->
         IF c = L.q THEN [L EXCEPT !.mode = "id", !.val = Append(@, c)]
         ELSE LexStep(d, CloseId(L), c)
\* end of text
Finish(d, L) ==
  CASE L.mode \in {"code", "lc"} -> L
    [] L.mode \in {"dash", "slash"} -> (IF L.inword THEN L ELSE Kind(L, "w"))
    [] L.mode = "strq" -> CloseStr(L)
    [] L.mode = "idq" -> CloseId(L)
    [] OTHER -> [L EXCEPT !.bad = TRUE]          \* unterminated literal, identifier or block comment
RECURSIVE LexFrom(_, _, _, _)
LexFrom(d, L, t, i) == IF i > Len(t) THEN Finish(d, L) ELSE LexFrom(d, LexStep(d, L, t[i]), t, i + 1)
Lex(d, t) == LexFrom(d, L0, t, 1)

(***************************************************************************)
(* (B) quoting                                                             *)
(***************************************************************************)
CONSTANT Dev
StringQuote(d) == IF d \in {"sqlite", "pg", "mysql"} THEN SQ ELSE DQ
IdentQuote(d)  == IF d \in {"sqlite", "pg"} THEN DQ ELSE BT
RECURSIVE Esc(_, _, _), EscCoded(_, _, _)
\* as coded: every occurrence of the quote character is doubled, nothing else is touched
EscCoded(s, q, i) == IF i > Len(s) THEN <<>> ELSE (IF s[i] = q THEN <<q, q>> ELSE <<s[i]>>) \o EscCoded(s, q, i + 1)
\* what the dialect needs: backslash dialects escape the backslash (and the quote with a backslash where doubling is not lexical)
Esc(d, s, i) ==
  IF i > Len(s) THEN <<>>
  ELSE LET c == s[i] q == StringQuote(d) IN
       (IF c = BS /\ BackslashEsc(d) THEN <<BS, BS>>
        ELSE IF c = q THEN (IF Doubling(d) THEN <<q, q>> ELSE <<BS, q>>)
        ELSE <<c>>) \o Esc(d, s, i + 1)
QuoteString(d, s) ==
  LET q == StringQuote(d) IN
  <<q>> \o (IF "quote_doubling_only" \in Dev THEN EscCoded(s, q, 1) ELSE Esc(d, s, 1)) \o <<q>>
RECURSIVE EscId(_, _, _)
EscId(d, s, i) ==
  IF i > Len(s) THEN <<>>
  ELSE (IF s[i] = BS /\ IdBackslash(d) /\ "quote_doubling_only" \notin Dev THEN <<BS, BS>> ELSE <<s[i]>>) \o EscId(d, s, i + 1)
\* identifiers containing the identifier quote are outside the property (the code refuses them)
QuoteIdent(d, s) == <<IdentQuote(d)>> \o EscId(d, s, 1) \o <<IdentQuote(d)>>

(***************************************************************************)
(* model level: all short strings over the dangerous characters            *)
(***************************************************************************)
CONSTANTS Alphabet, MaxLen
VARIABLES s
Init == s = <<>>
Next == Len(s) < MaxLen /\ \E c \in Alphabet : s' = Append(s, c)
Spec == Init /\ [][Next]_s
OneToken(r, kind, v) == ~r.bad /\ r.kinds = <<kind>> /\ (IF kind = "s" THEN r.strs = <<v>> /\ r.ids = <<>> ELSE r.ids = <<v>> /\ r.strs = <<>>)
ReadBackString == \A d \in Dialects : OneToken(Lex(d, QuoteString(d, s)), "s", s)
ReadBackIdent  == \A d \in Dialects : (\A i \in 1..Len(s) : s[i] # IdentQuote(d)) /\ Len(s) > 0 => OneToken(Lex(d, QuoteIdent(d, s)), "i", s)
EmitS == PrintT("CASE " \o ToString(s))
\* per dialect versions (to show WHICH dialects the coded quoting fails for)
ReadBackAnsi == \A d \in {"sqlite", "pg"} : OneToken(Lex(d, QuoteString(d, s)), "s", s)
=============================================================================
