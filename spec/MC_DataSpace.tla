---------------------------- MODULE MC_DataSpace ----------------------------
EXTENDS DataSpace
MC_Keys == {"a", "da_temp_1", "da_temp_2"}
MC_Keys2 == {"a", "da_temp_1"}
MC_Vals == {[cells |-> <<1>>, wide |-> FALSE], [cells |-> <<2, 3>>, wide |-> FALSE], [cells |-> <<4>>, wide |-> TRUE]}
NoDev == {}
DevAuto == {"auto_key_collision"}
DevDb == {"dbspace_drop_before_eval"}
DevBoth == {"auto_key_collision", "dbspace_drop_before_eval"}
=============================================================================
