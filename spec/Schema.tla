-------------------------------- MODULE Schema --------------------------------
(***************************************************************************)
(* C22: schema-check decorators raise exactly on schema violations.         *)
(*                                                                          *)
(* (A) Spec grammar and its documented meaning:                             *)
(*   <<"none">>            no constraint                                    *)
(*   <<"type", t>>         value must be an instance of t                   *)
(*   <<"types", S>>        ... of one of the types in S                     *)
(*   <<"ex", v>>           an example value declares its own type           *)
(*   <<"exs", S>>          a set of example values declares their types     *)
(*   <<"cols", <<c, sp>>..>> a data frame that has every column c, whose    *)
(*                         non-null cells satisfy sp (sp not a cols spec)   *)
(* Python's subclass fact bool <: int is part of IsInst.                    *)
(* (B) the global switch is a two-state machine; with checking off a call   *)
(* never raises for schema reasons.                                         *)
(* Deviation "schema_set_not_normalised" (D13): example values inside sets  *)
(* are not turned into types, so the check itself fails with TypeError.     *)
(***************************************************************************)
EXTENDS Integers, Sequences, FiniteSets, TLC, Json, Randomization

CONSTANTS ASpecs, BSpecs, RSpecs,   \* specification pools for argument a (scalar), b (frame), the return value
          AVals, BVals, RVals,      \* value pools
          Dev, MaxOps, SampleK, EmitOneIn, NONE, UNDECL

NULLV == <<"null", 0>>
IsScalar(x) == x[1] # "frame"
IsInst(x, t) == IsScalar(x) /\ (x[1] = t \/ (x[1] = "bool" /\ t = "int"))
TypeOfV(x) == x[1]

RECURSIVE Conforms(_, _)
Conforms(sp, x) ==
  CASE sp[1] = "none"  -> TRUE
    [] sp[1] = "type"  -> IsInst(x, sp[2])
    [] sp[1] = "types" -> \E t \in sp[2] : IsInst(x, t)
    [] sp[1] = "ex"    -> IsInst(x, TypeOfV(sp[2]))
    [] sp[1] = "exs"   -> \E v \in sp[2] : IsInst(x, TypeOfV(v))
    [] sp[1] = "cols"  ->
         /\ x[1] = "frame"
         /\ \A i \in 2..Len(sp) :
              LET c == sp[i][1] csp == sp[i][2]
                  J == {j \in 1..Len(x[2]) : x[2][j][1] = c}
              IN /\ J # {}
                 /\ \A j \in J : \A k \in 1..Len(x[2][j][2]) :
                       LET cell == x[2][j][2][k] IN cell = NULLV \/ Conforms(csp, cell)
\* D13: does checking x against sp evaluate isinstance(value, <example value>)?  (then the checker itself
\* raises TypeError although the call may conform)
RECURSIVE TouchesRawExampleSet(_, _)
TouchesRawExampleSet(sp, x) ==
  CASE sp[1] = "exs" -> TRUE
    [] sp[1] = "cols" -> x[1] = "frame" /\ \E i \in 2..Len(sp) :
                           /\ sp[i][2][1] = "exs"
                           /\ \E j \in 1..Len(x[2]) : x[2][j][1] = sp[i][1] /\ \E k \in 1..Len(x[2][j][2]) : x[2][j][2][k] # NULLV
    [] OTHER -> FALSE
Bad(sp, x) == IF "schema_set_not_normalised" \in Dev /\ TouchesRawExampleSet(sp, x) THEN TRUE ELSE ~Conforms(sp, x)

\* a call of f(a, b): each argument is passed positionally, by keyword, or left out
\* call = [aspec, bspec, rspec, amode, bmode, a, b, r]; modes "pos" | "kw" | "missing"
ArgBad(sp, mode, x) == sp # UNDECL /\ (mode = "missing" \/ Bad(sp, x))
ShouldRaise(c, on) ==
  on /\ (ArgBad(c.aspec, c.amode, c.a) \/ ArgBad(c.bspec, c.bmode, c.b) \/ Bad(c.rspec, c.r))

Calls == [aspec : ASpecs \cup {UNDECL}, bspec : BSpecs \cup {UNDECL}, rspec : RSpecs,
          amode : {"pos", "kw", "missing"}, bmode : {"pos", "kw", "missing"}, a : AVals, b : BVals, r : RVals]
WellFormedCall(c) == (c.bmode = "pos" => c.amode = "pos")     \* positional arguments are a prefix

VARIABLES on, nops, hist
vars == <<on, nops, hist>>
Init == on = TRUE /\ nops = 0 /\ hist = <<>>
Samp(S) == IF SampleK = 0 \/ Cardinality(S) <= SampleK THEN S ELSE RandomSubset(SampleK, S)
Switch(v) == /\ nops < MaxOps /\ on' = v /\ nops' = nops + 1
             /\ hist' = Append(hist, [op |-> IF v THEN "on" ELSE "off", raises |-> FALSE, call |-> NONE])
Pick(S) == IF SampleK = 0 THEN S ELSE {RandomElement(S)}
Call ==
  /\ nops < MaxOps /\ UNCHANGED on /\ nops' = nops + 1
  /\ \E c \in [aspec : Pick(ASpecs \cup {UNDECL}), bspec : Pick(BSpecs \cup {UNDECL}), rspec : Pick(RSpecs),
               amode : {"pos", "kw", "missing"}, bmode : {"pos", "kw", "missing"},
               a : Pick(AVals), b : Pick(BVals), r : Pick(RVals)] :
       /\ WellFormedCall(c)
       /\ hist' = Append(hist, [op |-> "call", raises |-> ShouldRaise(c, on), call |-> c])
Next == Switch(TRUE) \/ Switch(FALSE) \/ Call
Spec == Init /\ [][Next]_vars

\* laws of the reference
OffNeverRaises == \A j \in 1..Len(hist) : (hist[j].op = "call" /\ hist[j].raises) =>
                     LET K == {k \in 1..(j - 1) : hist[k].op \in {"on", "off"}} IN
                     K = {} \/ hist[CHOOSE k \in K : \A m \in K : m <= k].op = "on"
ExampleDeclaresItsType ==
  \A v \in AVals, w \in AVals : Conforms(<<"ex", v>>, w) = Conforms(<<"type", TypeOfV(v)>>, w)
BoolIsInt == Conforms(<<"type", "int">>, <<"bool", 1>>) /\ ~Conforms(<<"type", "bool">>, <<"int", 1>>)
Emit == (nops = MaxOps /\ (EmitOneIn = 1 \/ RandomElement(1..EmitOneIn) = 1)) => PrintT("CASE " \o ToJson([hist |-> hist]))
=============================================================================
