---- MODULE MC_EvalCache ----
EXTENDS EvalCache
MC_Dialects == {"sqlite", "pg"}
MC_Sqls == {"q1", "q2"}
\* pool: 0 base; 1 copy of base (equal); 2 one value changed; 3 column renamed; 4 one row less; 5 rows reversed;
\*       6 table renamed; 7 dtype int instead of float; 8 two tables, second changed
\*       9 two tables {e: A, d: B} inserted in that order; 10 the same map inserted as {d: B, e: A} (equal data);
\*       11 {d: A, e: B}: the same names with the contents exchanged
MC_Pool == 0..11
MC_PoolQ == 0..4
MC_Pool3 == {0, 1, 2}
MC_PoolT == {9, 10, 11}
MC_D1 == {"sqlite"}
MC_S1 == {"q1"}
MC_Class == [m \in 0..11 |-> IF m = 1 THEN 0 ELSE IF m = 10 THEN 9 ELSE m]
MC_Results == {"r1", "r2"}
====
