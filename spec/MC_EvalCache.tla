---- MODULE MC_EvalCache ----
EXTENDS EvalCache
MC_Dialects == {"sqlite", "pg"}
MC_Sqls == {"q1", "q2"}
\* pool: 0 base; 1 copy of base (equal); 2 one value changed; 3 column renamed; 4 one row less; 5 rows reversed;
\*       6 table renamed; 7 dtype int instead of float; 8 two tables, second changed
MC_Pool == 0..8
MC_PoolQ == 0..4
MC_Class == [m \in 0..8 |-> IF m = 1 THEN 0 ELSE m]
MC_Results == {"r1", "r2"}
====
