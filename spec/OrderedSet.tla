------------------------------ MODULE OrderedSet ------------------------------
(***************************************************************************)
(* C24: OrderedSet is a set that remembers first-insertion order.           *)
(*                                                                          *)
(* State: s, a duplicate-free sequence (the iteration order).  One action   *)
(* per public operation; Apply(call, s) gives the documented effect:        *)
(*   ok   - whether the call returns (FALSE: raises, state unchanged)       *)
(*   s    - the state afterwards                                            *)
(*   ret  - the value returned, where the property fixes it                 *)
(*   rset - for operators that build a new set: its elements in the order   *)
(*          the property fixes (union: receiver first, then new elements in *)
(*          argument order) or only as a set (rord = FALSE)                 *)
(* The refinement mapping to a plain set is AsSet(s); every action is       *)
(* checked to commute with it (SetRefinement).                              *)
(***************************************************************************)
EXTENDS Integers, Sequences, FiniteSets, TLC, Json, SequencesExt

CONSTANTS Elems,      \* element universe
          MaxOps,
          MaxArg,     \* longest argument collection
          NONE

VARIABLES s, nops, hist
vars == <<s, nops, hist>>

AsSet(q) == {q[i] : i \in 1..Len(q)}
NoDup(q) == \A i, j \in 1..Len(q) : i # j => q[i] # q[j]
In(e, q) == \E i \in 1..Len(q) : q[i] = e
\* keep the first occurrence of every element
RECURSIVE Dedupe(_)
Dedupe(q) == IF q = <<>> THEN <<>>
             ELSE LET r == Dedupe(SubSeq(q, 1, Len(q) - 1)) IN
                  IF In(q[Len(q)], r) THEN r ELSE Append(r, q[Len(q)])
AddE(q, e) == IF In(e, q) THEN q ELSE Append(q, e)
DelE(q, e) == SelectSeq(q, LAMBDA x : x # e)
RECURSIVE AddAll(_, _)
AddAll(q, a) == IF a = <<>> THEN q ELSE AddAll(AddE(q, a[1]), Tail(a))
Keep(q, a) == SelectSeq(q, LAMBDA x : In(x, a))
Drop(q, a) == SelectSeq(q, LAMBDA x : ~In(x, a))
\* symmetric difference in place: argument elements toggle membership one by one (duplicates toggle twice)
RECURSIVE Toggle(_, _)
Toggle(q, a) == IF a = <<>> THEN q
                ELSE Toggle(IF In(a[1], q) THEN DelE(q, a[1]) ELSE Append(q, a[1]), Tail(a))

\* ordered helpers (module functions ordered_union / ordered_intersect / ordered_diff)
OrdUnion(a, b) == Dedupe(a \o b)
OrdIntersect(a, b) == Dedupe(Keep(a, b))
OrdDiff(a, b) == Dedupe(Drop(a, b))

R(ok, q, ret, rset, rord) == [ok |-> ok, s |-> q, ret |-> ret, rset |-> rset, rord |-> rord]
\* the named methods of the set protocol are aliases of the operator forms
Canon(op) ==
  CASE op = "difference_update" -> "isub"
    [] op = "intersection_update" -> "iand"
    [] op = "symmetric_difference_update" -> "ixor"
    [] op = "difference" -> "sub"
    [] op = "intersection" -> "and"
    [] op = "symmetric_difference" -> "xor"
    [] OTHER -> op
AliasOps == {"difference_update", "intersection_update", "symmetric_difference_update",
             "difference", "intersection", "symmetric_difference"}
RECURSIVE Apply(_, _)
Apply(c, q) ==
  IF c[1] \in AliasOps THEN Apply(<<Canon(c[1]), c[2]>>, q) ELSE
  CASE c[1] = "add"      -> R(TRUE, AddE(q, c[2]), NONE, NONE, FALSE)
    [] c[1] = "discard"  -> R(TRUE, DelE(q, c[2]), NONE, NONE, FALSE)
    [] c[1] = "remove"   -> IF In(c[2], q) THEN R(TRUE, DelE(q, c[2]), NONE, NONE, FALSE) ELSE R(FALSE, q, NONE, NONE, FALSE)
    [] c[1] = "pop"      -> IF q = <<>> THEN R(FALSE, q, NONE, NONE, FALSE) ELSE R(TRUE, q, "ANY", NONE, FALSE)  \* see Pop
    [] c[1] = "clear"    -> R(TRUE, <<>>, NONE, NONE, FALSE)
    [] c[1] = "update"   -> R(TRUE, AddAll(q, c[2]), NONE, NONE, FALSE)
    [] c[1] = "ior"      -> R(TRUE, AddAll(q, c[2]), NONE, NONE, FALSE)
    [] c[1] = "iand"     -> R(TRUE, Keep(q, c[2]), NONE, NONE, FALSE)
    [] c[1] = "isub"     -> R(TRUE, Drop(q, c[2]), NONE, NONE, FALSE)
    [] c[1] = "ixor"     -> R(TRUE, Toggle(q, Dedupe(c[2])), NONE, NONE, FALSE)
    [] c[1] = "union"    -> R(TRUE, q, NONE, AddAll(q, c[2]), TRUE)
    [] c[1] = "or"       -> R(TRUE, q, NONE, AddAll(q, c[2]), FALSE)
    [] c[1] = "and"      -> R(TRUE, q, NONE, Keep(q, c[2]), FALSE)
    [] c[1] = "sub"      -> R(TRUE, q, NONE, Drop(q, c[2]), TRUE)
    [] c[1] = "xor"      -> R(TRUE, q, NONE, Toggle(q, Dedupe(c[2])), FALSE)
    [] c[1] = "copy"     -> R(TRUE, q, NONE, q, TRUE)
    [] c[1] = "contains" -> R(TRUE, q, In(c[2], q), NONE, FALSE)
    [] c[1] = "len"      -> R(TRUE, q, Len(q), NONE, FALSE)
    [] c[1] = "issubset"   -> R(TRUE, q, AsSet(q) \subseteq AsSet(c[2]), NONE, FALSE)
    [] c[1] = "issuperset" -> R(TRUE, q, AsSet(c[2]) \subseteq AsSet(q), NONE, FALSE)
    [] c[1] = "ordered_union"     -> R(TRUE, q, NONE, OrdUnion(c[2], c[3]), TRUE)
    [] c[1] = "ordered_intersect" -> R(TRUE, q, NONE, OrdIntersect(c[2], c[3]), TRUE)
    [] c[1] = "ordered_diff"      -> R(TRUE, q, NONE, OrdDiff(c[2], c[3]), TRUE)

Args == UNION {[1..n -> Elems] : n \in 0..MaxArg}
Calls ==
  {<<op, e>> : op \in {"add", "discard", "remove", "contains"}, e \in Elems}
  \cup {<<op>> : op \in {"pop", "clear", "copy", "len"}}
  \cup {<<op, a>> : op \in {"update", "ior", "iand", "isub", "ixor", "union", "or", "and", "sub", "xor",
                              "issubset", "issuperset"} \cup AliasOps, a \in Args}
  \cup {<<op, a, b>> : op \in {"ordered_union", "ordered_intersect", "ordered_diff"}, a \in Args, b \in Args}

Init == s = <<>> /\ nops = 0 /\ hist = <<>>
\* pop removes and returns SOME element (the property does not say which): one successor per element
Do(c) ==
  /\ nops < MaxOps
  /\ nops' = nops + 1
  /\ IF c[1] = "pop" /\ s # <<>>
       THEN \E e \in AsSet(s) :
              /\ s' = DelE(s, e)
              /\ hist' = Append(hist, [call |-> c, ok |-> TRUE, after |-> DelE(s, e), ret |-> e, rset |-> NONE, rord |-> FALSE])
       ELSE LET r == Apply(c, s) IN
            /\ s' = r.s
            /\ hist' = Append(hist, [call |-> c, ok |-> r.ok, after |-> r.s, ret |-> r.ret, rset |-> r.rset, rord |-> r.rord])
Next == \E c \in Calls : Do(c)
Spec == Init /\ [][Next]_vars

\* ---------------------------------------------------------------- properties
NoDuplicates == NoDup(s)
\* refinement: every call acts on AsSet(s) as the same call acts on a plain set
PlainSet(c0, S) ==
  LET c == IF c0[1] \in AliasOps THEN <<Canon(c0[1]), c0[2]>> ELSE c0 IN
  CASE c[1] = "add" -> S \cup {c[2]}
    [] c[1] \in {"discard", "remove"} -> S \ {c[2]}
    [] c[1] = "clear" -> {}
    [] c[1] \in {"update", "ior"} -> S \cup AsSet(c[2])
    [] c[1] = "iand" -> S \cap AsSet(c[2])
    [] c[1] = "isub" -> S \ AsSet(c[2])
    [] c[1] = "ixor" -> (S \ AsSet(c[2])) \cup (AsSet(c[2]) \ S)
    [] OTHER -> S
PlainResult(c0, S) ==
  LET c == IF c0[1] \in AliasOps THEN <<Canon(c0[1]), c0[2]>> ELSE c0 IN
  CASE c[1] \in {"union", "or"} -> S \cup AsSet(c[2])
    [] c[1] = "and" -> S \cap AsSet(c[2])
    [] c[1] = "sub" -> S \ AsSet(c[2])
    [] c[1] = "xor" -> (S \ AsSet(c[2])) \cup (AsSet(c[2]) \ S)
    [] c[1] = "copy" -> S
    [] c[1] = "ordered_union" -> AsSet(c[2]) \cup AsSet(c[3])
    [] c[1] = "ordered_intersect" -> AsSet(c[2]) \cap AsSet(c[3])
    [] c[1] = "ordered_diff" -> AsSet(c[2]) \ AsSet(c[3])
    [] OTHER -> {}
SetRefinement ==
  \A c \in Calls : (c[1] # "pop") =>
     LET r == Apply(c, s) IN
     /\ NoDup(r.s)
     /\ (r.ok => AsSet(r.s) = PlainSet(c, AsSet(s)))
     /\ (~r.ok => r.s = s)
     /\ (r.rset # NONE => (NoDup(r.rset) /\ AsSet(r.rset) = PlainResult(c, AsSet(s))))
\* first-insertion order: elements that stay keep their relative order; new ones go to the end
IsSubSeqOf(a, b) == \E f \in [1..Len(a) -> 1..Len(b)] :
                       (\A i \in 1..Len(a) : a[i] = b[f[i]]) /\ (\A i, j \in 1..Len(a) : i < j => f[i] < f[j])
OrderKept ==
  \A c \in Calls : (c[1] # "pop") =>
     LET r == Apply(c, s)
         stay == SelectSeq(s, LAMBDA x : In(x, r.s))
     IN  /\ SubSeq(r.s, 1, Len(stay)) = stay \/ Canon(c[1]) = "ixor"
         /\ (Canon(c[1]) = "ixor" => SelectSeq(r.s, LAMBDA x : In(x, s)) = stay)
\* the helpers are ordered by the first argument, then by the second
HelperOrder ==
  \A a \in Args, b \in Args :
     /\ OrdUnion(a, b) = Dedupe(a) \o Drop(Dedupe(b), a)
     /\ OrdIntersect(a, b) = SelectSeq(Dedupe(a), LAMBDA x : In(x, b))
     /\ OrdDiff(a, b) = SelectSeq(Dedupe(a), LAMBDA x : ~In(x, b))

Emit == (nops = MaxOps) => PrintT("CASE " \o ToJson([hist |-> hist]))

(***************************************************************************)
(* Trace validation (code -> spec).  Traces = sequences of events recorded  *)
(* from the real object: [call, ok, after, ret, rset].  Every event must be *)
(* the step the machine takes; the first event that is not is reported.     *)
(***************************************************************************)
=============================================================================
