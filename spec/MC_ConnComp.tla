---- MODULE MC_ConnComp ----
EXTENDS ConnComp
MC_V == 1..4
MC_V7 == 1..7
====
