-------------------------------- MODULE Expr --------------------------------
(***************************************************************************)
(* Expression text, its Python meaning, the parser's tree walk and the      *)
(* printer (C12, C13).                                                      *)
(*                                                                          *)
(* (A) reference: concrete syntax trees (CST) of the Python-like grammar    *)
(*     as the lark parser shapes them (operator chains are FLAT), the text  *)
(*     of a CST (Show), a recursive-descent parser for that text written    *)
(*     from Python's grammar (ParsePy), and Python's meaning of a CST       *)
(*     (PyVal) over small integers and booleans.                            *)
(* (B) implementation-shaped: WalkImpl = parse_by_lark._walk_lark_tree      *)
(*     (k-ary + and *, linear chains, `not e` -> `e == False`, constant     *)
(*     folding of a negated number), TermVal = what the expression tree     *)
(*     computes, PrintImpl = Expression.to_python / Value.to_python.        *)
(*                                                                          *)
(* Properties checked by TLC on every generated CST e:                      *)
(*   ParseShowLaw   ParsePy(Show(e)) = e            (spec self-consistency)  *)
(*   ParseMeaning   TermVal(WalkImpl(e)) = PyVal(e)           (C13)          *)
(*   PrintRoundTrip WalkImpl(ParsePy(PrintImpl(t))) = t  for t = WalkImpl(e) *)
(*   PrintMeaning   TermVal(WalkImpl(ParsePy(PrintImpl(t)))) = TermVal(t)    *)
(*                                                             (C12, C13)    *)
(* Dev = named deviations the code is KNOWN to have (DESIGN.md 6):          *)
(*   "cmp_chain_linear"  1 < x < 3 is read as (1 < x) < 3          (D6)      *)
(*   "neg_base_unparen"  (-x) ** 2 and (-2) ** x are printed without the     *)
(*                       parentheses                               (D5)      *)
(* With Dev = {} the model is what a correct implementation does.           *)
(***************************************************************************)
EXTENDS Integers, Sequences, FiniteSets, TLC, Json

CONSTANTS
  UNDEF,      \* model value: division by zero, negative exponent, overflow guard
  Dev,        \* set of deviation names
  MaxDepth,   \* bound on the number of productions applied
  Rich        \* TRUE: larger production alphabet (simulation)

Big == 30000

CmpOps   == {"==", "!=", "<", "<=", ">", ">="}
ArithOps == {"+", "-"}
TermOps  == {"*", "//", "%"}
Nums     == {"0", "1", "2", "3"}
NumVal   == [s \in Nums |-> CASE s = "0" -> 0 [] s = "1" -> 1 [] s = "2" -> 2 [] s = "3" -> 3]
IntVars  == {"x", "y"}
BoolVars == {"p", "q"}
Methods0 == {"abs"}            \* receiver only
Methods1 == {"maximum"}        \* receiver and one argument

Env1 == [x |-> 0 - 2, y |-> 3, p |-> TRUE,  q |-> FALSE]
Env2 == [x |-> 3,     y |-> 2, p |-> FALSE, q |-> TRUE]
Env3 == [x |-> 0,     y |-> 1, p |-> TRUE,  q |-> TRUE]
Envs == {Env1, Env2, Env3}

(***************************************************************************)
(* CST forms                                                               *)
(*   <<"n", "2">>  <<"v", "x">>  <<"k", "True">>                            *)
(*   <<"chain", kind, <<e1, op1, e2, op2, e3 ...>>>>  kind: or and cmp arith term *)
(*   <<"not", e>>  <<"neg", e>>  <<"pow", base, exponent>>                  *)
(*   <<"par", e>>  <<"call", receiver, name, <<args>>>>                     *)
(***************************************************************************)
Lvl(e) ==
  CASE e[1] = "chain" -> (CASE e[2] = "or" -> 1 [] e[2] = "and" -> 2 [] e[2] = "cmp" -> 4 [] e[2] = "arith" -> 5 [] e[2] = "term" -> 6)
    [] e[1] = "not" -> 3
    [] e[1] = "neg" -> 7
    [] e[1] = "pow" -> 8
    [] OTHER -> 9
\* the kind of value: "i" integer, "b" boolean
RECURSIVE KdR(_)
KdR(e) == IF e[1] = "par" THEN KdR(e[2]) ELSE
  CASE e[1] = "n" -> "i"
    [] e[1] = "v" -> (IF e[2] \in IntVars THEN "i" ELSE "b")
    [] e[1] = "k" -> "b"
    [] e[1] = "chain" -> (IF e[2] \in {"or", "and", "cmp"} THEN "b" ELSE "i")
    [] e[1] = "not" -> "b"
    [] OTHER -> "i"

\* ---------------------------------------------------------------- text of a CST
RECURSIVE Show(_), ShowItems(_, _), ShowArgs(_, _)
ShowItems(items, i) ==
  IF i > Len(items) THEN <<>>
  ELSE (IF i % 2 = 1 THEN Show(items[i]) ELSE <<items[i]>>) \o ShowItems(items, i + 1)
ShowArgs(args, i) ==
  IF i > Len(args) THEN <<>>
  ELSE (IF i > 1 THEN <<",">> ELSE <<>>) \o Show(args[i]) \o ShowArgs(args, i + 1)
Show(e) ==
  CASE e[1] \in {"n", "v", "k"} -> <<e[2]>>
    [] e[1] = "chain" -> ShowItems(e[3], 1)
    [] e[1] = "not"   -> <<"not">> \o Show(e[2])
    [] e[1] = "neg"   -> <<"-">> \o Show(e[2])
    [] e[1] = "pow"   -> Show(e[2]) \o <<"**">> \o Show(e[3])
    [] e[1] = "par"   -> <<"(">> \o Show(e[2]) \o <<")">>
    [] e[1] = "call"  -> Show(e[2]) \o <<".", e[3], "(">> \o ShowArgs(e[4], 1) \o <<")">>

\* ---------------------------------------------------------------- Python's grammar (recursive descent)
Tok(ts, i) == IF i <= Len(ts) THEN ts[i] ELSE "<eof>"
OpsOf(lv) == CASE lv = "or" -> {"or"} [] lv = "and" -> {"and"} [] lv = "cmp" -> CmpOps
               [] lv = "arith" -> ArithOps [] lv = "term" -> TermOps
SubOf(lv) == CASE lv = "or" -> "and" [] lv = "and" -> "not" [] lv = "cmp" -> "arith"
               [] lv = "arith" -> "term" [] lv = "term" -> "factor"
MkChain(lv, acc) == IF Len(acc) = 1 THEN acc[1] ELSE <<"chain", lv, acc>>
RECURSIVE P(_, _, _), PChainRest(_, _, _, _), PTrail(_, _, _), PArgs(_, _, _)
PChainRest(lv, ts, i, acc) ==
  IF Tok(ts, i) \in OpsOf(lv)
    THEN LET r == P(SubOf(lv), ts, i + 1) IN PChainRest(lv, ts, r.i, acc \o <<ts[i], r.t>>)
    ELSE [t |-> MkChain(lv, acc), i |-> i]
PArgs(ts, i, acc) ==          \* i is just after "(" or ","
  IF Tok(ts, i) = ")" THEN [t |-> acc, i |-> i + 1]
  ELSE LET a == P("or", ts, i) IN
       IF Tok(ts, a.i) = "," THEN PArgs(ts, a.i + 1, Append(acc, a.t))
       ELSE [t |-> Append(acc, a.t), i |-> a.i + 1]         \* the token at a.i is ")"
PTrail(ts, i, recv) ==
  IF Tok(ts, i) = "." THEN LET as == PArgs(ts, i + 3, <<>>) IN PTrail(ts, as.i, <<"call", recv, ts[i + 1], as.t>>)
  ELSE [t |-> recv, i |-> i]
P(lv, ts, i) ==
  CASE lv \in {"or", "and", "cmp", "arith", "term"} ->
         LET f == P(SubOf(lv), ts, i) IN PChainRest(lv, ts, f.i, <<f.t>>)
    [] lv = "not" ->
         IF Tok(ts, i) = "not" THEN LET r == P("not", ts, i + 1) IN [t |-> <<"not", r.t>>, i |-> r.i]
         ELSE P("cmp", ts, i)
    [] lv = "factor" ->
         IF Tok(ts, i) = "-" THEN LET r == P("factor", ts, i + 1) IN [t |-> <<"neg", r.t>>, i |-> r.i]
         ELSE P("power", ts, i)
    [] lv = "power" ->
         LET b == P("atomexpr", ts, i) IN
         IF Tok(ts, b.i) = "**" THEN LET x == P("factor", ts, b.i + 1) IN [t |-> <<"pow", b.t, x.t>>, i |-> x.i]
         ELSE b
    [] lv = "atomexpr" ->
         LET a == IF Tok(ts, i) = "(" THEN LET r == P("or", ts, i + 1) IN [t |-> <<"par", r.t>>, i |-> r.i + 1]
                  ELSE IF ts[i] \in Nums THEN [t |-> <<"n", ts[i]>>, i |-> i + 1]
                  ELSE IF ts[i] \in {"True", "False"} THEN [t |-> <<"k", ts[i]>>, i |-> i + 1]
                  ELSE [t |-> <<"v", ts[i]>>, i |-> i + 1]
         IN PTrail(ts, a.i, a.t)
ParsePy(ts) == P("or", ts, 1).t

\* ---------------------------------------------------------------- Python's meaning
FloorDiv(a, b) == IF b > 0 THEN a \div b ELSE (0 - a) \div (0 - b)
Guard(v) == IF v > Big \/ v < 0 - Big THEN UNDEF ELSE v
RECURSIVE IPow(_, _)
IPow(a, n) == IF n = 0 THEN 1 ELSE a * IPow(a, n - 1)
Bin(op, a, b) ==
  IF a = UNDEF \/ b = UNDEF THEN UNDEF
  ELSE CASE op = "+" -> Guard(a + b)
         [] op = "-" -> Guard(a - b)
         [] op = "*" -> Guard(a * b)
         [] op = "//" -> IF b = 0 THEN UNDEF ELSE FloorDiv(a, b)
         [] op = "%" -> IF b = 0 THEN UNDEF ELSE a - b * FloorDiv(a, b)
         [] op = "**" -> IF b < 0 \/ b > 4 \/ a > 13 \/ a < 0 - 13 THEN UNDEF ELSE Guard(IPow(a, b))
         [] op = "==" -> a = b
         [] op = "!=" -> a # b
         [] op = "<"  -> a < b
         [] op = "<=" -> a <= b
         [] op = ">"  -> a > b
         [] op = ">=" -> a >= b
         [] op = "and" -> a /\ b
         [] op = "or" -> a \/ b
Neg(a) == IF a = UNDEF THEN UNDEF ELSE 0 - a
Not(a) == IF a = UNDEF THEN UNDEF ELSE ~a
Meth(name, r, args) ==
  IF r = UNDEF \/ \E i \in 1..Len(args) : args[i] = UNDEF THEN UNDEF
  ELSE CASE name = "abs" -> IF r < 0 THEN 0 - r ELSE r
         [] name = "maximum" -> IF r >= args[1] THEN r ELSE args[1]
RECURSIVE PyVal(_, _), PyChain(_, _, _, _), PyCmpChain(_, _, _)
\* arithmetic and boolean chains associate to the left
PyChain(items, i, acc, env) ==
  IF i > Len(items) THEN acc ELSE PyChain(items, i + 2, Bin(items[i], acc, PyVal(items[i + 1], env)), env)
\* a comparison chain a < b < c means (a < b) and (b < c)
PyCmpChain(items, i, env) ==
  IF i + 2 > Len(items) THEN TRUE
  ELSE LET a == PyVal(items[i], env) b == PyVal(items[i + 2], env) r == Bin(items[i + 1], a, b) rest == PyCmpChain(items, i + 2, env) IN
       IF r = UNDEF \/ rest = UNDEF THEN UNDEF ELSE r /\ rest
PyVal(e, env) ==
  CASE e[1] = "n" -> NumVal[e[2]]
    [] e[1] = "v" -> env[e[2]]
    [] e[1] = "k" -> (e[2] = "True")
    [] e[1] = "chain" -> IF e[2] = "cmp" THEN PyCmpChain(e[3], 1, env) ELSE PyChain(e[3], 2, PyVal(e[3][1], env), env)
    [] e[1] = "not" -> Not(PyVal(e[2], env))
    [] e[1] = "neg" -> Neg(PyVal(e[2], env))
    [] e[1] = "pow" -> Bin("**", PyVal(e[2], env), PyVal(e[3], env))
    [] e[1] = "par" -> PyVal(e[2], env)
    [] e[1] = "call" -> Meth(e[3], PyVal(e[2], env), [i \in 1..Len(e[4]) |-> PyVal(e[4][i], env)])

(***************************************************************************)
(* (B) the tree walk of parse_by_lark: CST -> expression tree               *)
(*   <<"col", name>>  <<"val", int>>  <<"bval", bool>>                      *)
(*   <<"un", "-", t>>  <<"bin", op, a, b>>  <<"kop", op, <<t1, t2, ...>>>>  *)
(*   <<"meth", name, receiver, <<args>>>>                                   *)
(***************************************************************************)
Operands(items) == [j \in 1..((Len(items) + 1) \div 2) |-> items[2 * j - 1]]
OpsIn(items) == {items[2 * j] : j \in 1..((Len(items) - 1) \div 2)}
MkKop(op, ts) == IF Len(ts) = 2 THEN <<"bin", op, ts[1], ts[2]>> ELSE <<"kop", op, ts>>
RECURSIVE Walk(_), WalkFold(_, _, _)
\* in a linearised comparison chain the truth value of the earlier comparison is used as a number:
\* <<"b2i", t>> marks that coercion (True = 1, False = 0), it is invisible in the printed text
WalkFold(items, i, acc) ==
  IF i > Len(items) THEN acc
  ELSE WalkFold(items, i + 2, <<"bin", items[i], IF items[i] \in CmpOps /\ i > 2 THEN <<"b2i", acc>> ELSE acc, Walk(items[i + 1])>>)
Walk(e) ==
  CASE e[1] = "n" -> <<"val", NumVal[e[2]]>>
    [] e[1] = "v" -> <<"col", e[2]>>
    [] e[1] = "k" -> <<"bval", e[2] = "True">>
    [] e[1] = "chain" ->
         LET items == e[3] ops == OpsIn(items) IN
         \* kop_expr with two operands builds the same node as the binary operator method
         IF Len(items) = 3 THEN WalkFold(items, 2, Walk(items[1]))
         ELSE IF e[2] \in {"or", "and"} THEN <<"kop", e[2], [j \in 1..Len(Operands(items)) |-> Walk(Operands(items)[j])]>>
         ELSE IF e[2] \in {"arith", "term"} /\ Cardinality(ops) = 1 /\ ops \subseteq {"+", "*"}
                THEN <<"kop", CHOOSE o \in ops : TRUE, [j \in 1..Len(Operands(items)) |-> Walk(Operands(items)[j])]>>
         ELSE IF e[2] = "cmp" /\ "cmp_chain_linear" \notin Dev /\ Len(items) > 3
                \* what a correct walk does: the conjunction of the adjacent comparisons
                THEN MkKop("and", [j \in 1..((Len(items) - 1) \div 2) |->
                                        <<"bin", items[2 * j], Walk(items[2 * j - 1]), Walk(items[2 * j + 1])>>])
         ELSE WalkFold(items, 2, Walk(items[1]))
    [] e[1] = "not" -> <<"bin", "==", Walk(e[2]), <<"bval", FALSE>>>>
    [] e[1] = "neg" -> LET r == Walk(e[2]) IN IF r[1] = "val" THEN <<"val", 0 - r[2]>> ELSE <<"un", "-", r>>
    [] e[1] = "pow" -> <<"bin", "**", Walk(e[2]), Walk(e[3])>>
    [] e[1] = "par" -> Walk(e[2])
    [] e[1] = "call" -> <<"meth", e[3], Walk(e[2]), [j \in 1..Len(e[4]) |-> Walk(e[4][j])]>>

RECURSIVE TermVal(_, _), KopVal(_, _, _, _, _)
KopVal(op, ts, i, acc, env) == IF i > Len(ts) THEN acc ELSE KopVal(op, ts, i + 1, Bin(op, acc, TermVal(ts[i], env)), env)
TermVal(t, env) ==
  CASE t[1] = "col" -> env[t[2]]
    [] t[1] = "val" -> t[2]
    [] t[1] = "bval" -> t[2]
    [] t[1] = "b2i" -> LET v == TermVal(t[2], env) IN IF v = UNDEF THEN UNDEF ELSE IF v THEN 1 ELSE 0
    [] t[1] = "un" -> Neg(TermVal(t[3], env))
    [] t[1] = "bin" -> Bin(t[2], TermVal(t[3], env), TermVal(t[4], env))
    [] t[1] = "kop" -> KopVal(t[2], t[3], 2, TermVal(t[3][1], env), env)
    [] t[1] = "meth" -> Meth(t[2], TermVal(t[3], env), [i \in 1..Len(t[4]) |-> TermVal(t[4][i], env)])

(***************************************************************************)
(* (B) the printer: Expression.to_python / Value.to_python as coded.        *)
(* Returns [s |-> tokens, par |-> is_in_parens].                            *)
(***************************************************************************)
RECURSIVE Pr(_, _), PrJoin(_, _, _), PrArgs(_, _)
DigitTok(k) == CASE k = 0 -> "0" [] k = 1 -> "1" [] k = 2 -> "2" [] k = 3 -> "3"
PrJoin(ts, op, i) ==
  IF i > Len(ts) THEN <<>> ELSE (IF i > 1 THEN <<op>> ELSE <<>>) \o Pr(ts[i], TRUE).s \o PrJoin(ts, op, i + 1)
PrArgs(ts, i) ==
  IF i > Len(ts) THEN <<>> ELSE (IF i > 1 THEN <<",">> ELSE <<>>) \o Pr(ts[i], FALSE).s \o PrArgs(ts, i + 1)
\* does the code leave this operand of ** without the parentheses it needs?  (D5)
Pr(t, want) ==
  CASE t[1] = "col" -> [s |-> <<t[2]>>, par |-> FALSE]
    [] t[1] = "b2i" -> Pr(t[2], want)
    [] t[1] = "val" -> IF t[2] >= 0 THEN [s |-> <<DigitTok(t[2])>>, par |-> FALSE]
                       ELSE IF want /\ "neg_base_unparen" \notin Dev
                              THEN [s |-> <<"(", "-", DigitTok(0 - t[2]), ")">>, par |-> TRUE]
                              ELSE [s |-> <<"-", DigitTok(0 - t[2])>>, par |-> FALSE]
    [] t[1] = "bval" -> [s |-> <<IF t[2] THEN "True" ELSE "False">>, par |-> FALSE]
    [] t[1] = "un" ->
         LET sub == Pr(t[3], FALSE)
             body == IF sub.par THEN <<t[2]>> \o sub.s ELSE <<t[2], "(">> \o sub.s \o <<")">>
         IN IF want /\ "neg_base_unparen" \notin Dev THEN [s |-> <<"(">> \o body \o <<")">>, par |-> TRUE]
            ELSE [s |-> body, par |-> FALSE]
    [] t[1] = "bin" ->
         LET body == Pr(t[3], TRUE).s \o <<t[2]>> \o Pr(t[4], TRUE).s
         IN IF want THEN [s |-> <<"(">> \o body \o <<")">>, par |-> TRUE] ELSE [s |-> body, par |-> FALSE]
    [] t[1] = "kop" ->
         LET body == PrJoin(t[3], t[2], 1)
         IN IF want THEN [s |-> <<"(">> \o body \o <<")">>, par |-> TRUE] ELSE [s |-> body, par |-> FALSE]
    [] t[1] = "meth" ->
         LET sub == Pr(t[3], FALSE)
             recv == IF sub.par \/ t[3][1] = "col" THEN sub.s ELSE <<"(">> \o sub.s \o <<")">>
         IN [s |-> recv \o <<".", t[2], "(">> \o PrArgs(t[4], 1) \o <<")">>, par |-> FALSE]
PrintImpl(t) == Pr(t, FALSE).s

(***************************************************************************)
(* Generator: the CST is grown by grammar productions from atoms.  `e` is   *)
(* the expression under construction, `s` a saved one (second operand).     *)
(***************************************************************************)
VARIABLES e, s, depth
vars == <<e, s, depth>>

Atoms == {<<"n", "1">>, <<"n", "2">>, <<"v", "x">>, <<"v", "y">>}
          \cup (IF Rich THEN {<<"n", "0">>, <<"n", "3">>} ELSE {})
BAtoms == {<<"v", "p">>} \cup (IF Rich THEN {<<"v", "q">>, <<"k", "True">>} ELSE {})
\* wrap in parentheses when the grammar needs it for this position
Fit(x, minlvl) == IF Lvl(x) >= minlvl THEN x ELSE <<"par", x>>
Extend(kind, a, op, b) ==       \* a op b as a chain of this kind; flattens when a is already such a chain
  LET sub == CASE kind = "or" -> 2 [] kind = "and" -> 3 [] kind = "cmp" -> 5 [] kind = "arith" -> 6 [] kind = "term" -> 7 IN
  IF a[1] = "chain" /\ a[2] = kind THEN <<"chain", kind, a[3] \o <<op, Fit(b, sub)>>>>
  ELSE <<"chain", kind, <<Fit(a, sub), op, Fit(b, sub)>>>>
IntOps == [arith |-> ArithOps, term |-> (IF Rich THEN TermOps ELSE {"*", "//"})]
Productions(a, b) ==      \* a: current (any kind), b: other operand
  (IF KdR(a) = "i" /\ KdR(b) = "i"
     THEN {Extend("arith", a, op, b) : op \in IntOps.arith} \cup {Extend("arith", b, op, a) : op \in IntOps.arith}
          \cup {Extend("term", a, op, b) : op \in IntOps.term} \cup {Extend("term", b, op, a) : op \in IntOps.term}
          \cup {Extend("cmp", a, op, b) : op \in (IF Rich THEN CmpOps ELSE {"<", "=="})}
          \cup {<<"pow", Fit(a, 9), Fit(b, 7)>>, <<"pow", Fit(b, 9), Fit(a, 7)>>}
          \cup {<<"call", Fit(a, 9), "maximum", <<b>>>>}
     ELSE {})
  \cup (IF a[1] = "chain" /\ a[2] = "cmp" /\ KdR(b) = "i"
          THEN {<<"chain", "cmp", a[3] \o <<op, Fit(b, 5)>>>> : op \in {"<", "=="}} ELSE {})
  \cup (IF KdR(a) = "b" /\ KdR(b) = "b"
          THEN {Extend("and", a, "and", b), Extend("or", a, "or", b), Extend("or", b, "or", a), Extend("and", b, "and", a)}
          ELSE {})
Unaries(a) ==
  (IF KdR(a) = "i" THEN {<<"neg", Fit(a, 7)>>, <<"call", Fit(a, 9), "abs", <<>>>>, <<"par", a>>} ELSE {})
  \cup (IF KdR(a) = "b" THEN {<<"not", Fit(a, 3)>>, <<"par", a>>} ELSE {})

Init == e \in Atoms \cup BAtoms /\ s = <<"n", "1">> /\ depth = 0
GrowAtom == /\ depth < MaxDepth
            /\ \E b \in Atoms \cup BAtoms : \E n \in Productions(e, b) : e' = n
            /\ depth' = depth + 1 /\ UNCHANGED s
GrowUnary == /\ depth < MaxDepth
             /\ \E n \in Unaries(e) : e' = n
             /\ depth' = depth + 1 /\ UNCHANGED s
Save == /\ depth < MaxDepth /\ depth > 0
        /\ s' = e /\ \E a \in Atoms \cup BAtoms : e' = a
        /\ depth' = depth + 1
Join == /\ depth < MaxDepth /\ s # <<"n", "1">>
        /\ \E n \in Productions(e, s) : e' = n
        /\ depth' = depth + 1 /\ s' = <<"n", "1">>
Next == GrowAtom \/ GrowUnary \/ Save \/ Join
Spec == Init /\ [][Next]_vars

\* ---------------------------------------------------------------- properties
Defined(x) == \A env \in Envs : PyVal(x, env) # UNDEF
LongCmp(x) == x[1] = "chain" /\ x[2] = "cmp" /\ Len(x[3]) > 3
RECURSIVE HasLongCmp(_)
HasLongCmp(x) ==
  CASE x[1] \in {"n", "v", "k"} -> FALSE
    [] x[1] = "chain" -> LongCmp(x) \/ \E j \in 1..((Len(x[3]) + 1) \div 2) : HasLongCmp(x[3][2 * j - 1])
    [] x[1] \in {"not", "neg", "par"} -> HasLongCmp(x[2])
    [] x[1] = "pow" -> HasLongCmp(x[2]) \/ HasLongCmp(x[3])
    [] x[1] = "call" -> HasLongCmp(x[2]) \/ \E j \in 1..Len(x[4]) : HasLongCmp(x[4][j])

ParseShowLaw == ParsePy(Show(e)) = e
ParseMeaning == \A env \in Envs : PyVal(e, env) # UNDEF => TermVal(Walk(e), env) = PyVal(e, env)
PrintRoundTrip == LET t == Walk(e) IN Walk(ParsePy(PrintImpl(t))) = t
PrintMeaning == LET t == Walk(e) IN
  \A env \in Envs : TermVal(t, env) # UNDEF => TermVal(Walk(ParsePy(PrintImpl(t))), env) = TermVal(t, env)

\* ---------------------------------------------------------------- emission (spec -> code)
ValsOf(x, env) == [py |-> PyVal(x, env), term |-> TermVal(Walk(x), env)]
Case == [text |-> Show(e), cst |-> e, term |-> Walk(e), printed |-> PrintImpl(Walk(e)),
         vals |-> <<ValsOf(e, Env1), ValsOf(e, Env2), ValsOf(e, Env3)>>,
         longcmp |-> HasLongCmp(e)]
Emit == depth = MaxDepth => PrintT("CASE " \o ToJson(Case))
=============================================================================
