----------------------------- MODULE Relational -----------------------------
(***************************************************************************)
(* (A) reference semantics of the data_algebra operators on tables-as-bags. *)
(* Written from the documentation and the SQL standard; it is neither       *)
(* Pandas nor SQL and is the oracle for C01-C04, C08, C09, C16, C18, C27.   *)
(*                                                                          *)
(* A table is [cols |-> Seq(name), rows |-> Seq(row)], a row a function     *)
(* from column name to scalar.  Sequences keep the model executable; table  *)
(* equality is BAG equality over the same column set (BagEq).               *)
(*                                                                          *)
(* `dev` = set of named deviations (what a backend is known to do instead); *)
(* dev = {} is the reference.                                               *)
(***************************************************************************)
EXTENDS Values, SequencesExt, FiniteSetsExt, Functions

\* ---------------------------------------------------------------- helpers
Has(s, x)  == \E i \in 1..Len(s) : s[i] = x
SetOf(s)   == {s[i] : i \in 1..Len(s)}
NoDup(s)   == \A i, j \in 1..Len(s) : i # j => s[i] # s[j]
Without(s, drop) == SelectSeq(s, LAMBDA c : ~Has(drop, c))
\* append the members of t not already present (t itself duplicate-free)
AppendNew(s, t) == s \o SelectSeq(t, LAMBDA c : ~Has(s, c))
SumSeq(s) == FoldLeft(LAMBDA a, v : a + v, 0, s)
NonNull(s) == SelectSeq(s, LAMBDA v : v # NULL)
MaxOfSeq(s) == IF Len(s) = 0 THEN NULL ELSE Max(SetOf(s))
MinOfSeq(s) == IF Len(s) = 0 THEN NULL ELSE Min(SetOf(s))
Tbl(cols, rows) == [cols |-> cols, rows |-> rows]
NullRow(cols) == [c \in SetOf(cols) |-> NULL]


\* ---------------------------------------------------------------- ordering
Rank(v) == IF v = NULL THEN -1000 ELSE v         \* canonical sorting only; never observed
RECURSIVE LexLess(_, _, _, _, _)
LexLess(r1, r2, cols, rev, i) ==
  IF i > Len(cols) THEN FALSE
  ELSE LET c == cols[i]  a == Rank(r1[c])  b == Rank(r2[c]) IN
       IF a = b THEN LexLess(r1, r2, cols, rev, i + 1)
       ELSE IF Has(rev, c) THEN a > b ELSE a < b
SortRows(rows, cols, rev) == SortSeq(rows, LAMBDA r1, r2 : LexLess(r1, r2, cols, rev, 1))
Canon(t) == SortRows(t.rows, t.cols, <<>>)
\* bag equality by counting (no ordering of cell values needed: cells may be fractions <<"q", n, d>>)
CountRow(rows, r) == Cardinality({i \in 1..Len(rows) : rows[i] = r})
BagEq(t1, t2) == /\ SetOf(t1.cols) = SetOf(t2.cols)
                 /\ Len(t1.rows) = Len(t2.rows)
                 /\ \A i \in 1..Len(t1.rows) : CountRow(t1.rows, t1.rows[i]) = CountRow(t2.rows, t1.rows[i])
KeyOf(r, ks) == [i \in 1..Len(ks) |-> r[ks[i]]]
TotalOn(rows, cols) == \A i, j \in 1..Len(rows) : i # j => KeyOf(rows[i], cols) # KeyOf(rows[j], cols)
NullFreeOn(rows, cols) == \A i \in 1..Len(rows) : \A k \in 1..Len(cols) : rows[i][cols[k]] # NULL
IsSortedBy(rows, cols, rev) ==
  \A i \in 1..(Len(rows) - 1) : ~LexLess(rows[i + 1], rows[i], cols, rev, 1)

\* ---------------------------------------------------------------- extend (row-wise)
\* asg = << <<target, expr>>, ... >> ; every expression reads the INPUT row
Targets(asg) == [i \in 1..Len(asg) |-> asg[i][1]]
Extend(t, asg, dev) ==
  LET tg == Targets(asg)
      oc == AppendNew(t.cols, tg)
      NewRow(r) == [c \in SetOf(oc) |->
                      IF Has(tg, c) THEN EvalE(asg[CHOOSE i \in 1..Len(asg) : asg[i][1] = c][2], r, dev)
                      ELSE r[c]]
  IN Tbl(oc, [i \in 1..Len(t.rows) |-> NewRow(t.rows[i])])

\* ---------------------------------------------------------------- aggregates
\* value of aggregate fn over the sequence of cell values of one group
\* sum/count over a group with no non-null value is a documented destination convention
\* (reference: SQL's NULL / 0; flagged by ConvPoint so it is excluded from value comparison)
AggVal(fn, vals) ==
  LET nn == NonNull(vals) IN
  CASE fn = "sum"     -> IF Len(nn) = 0 THEN NULL ELSE SumSeq(nn)
    [] fn = "max"     -> MaxOfSeq(nn)
    [] fn = "min"     -> MinOfSeq(nn)
    [] fn = "count"   -> Len(nn)
    [] fn = "size"    -> Len(vals)
    [] fn = "_size"   -> Len(vals)
    [] fn = "nunique" -> Cardinality(SetOf(nn))
    [] fn = "mean"    -> IF Len(nn) = 0 THEN NULL ELSE Quot(SumSeq(nn), Len(nn))
\* (polars_nunique_counts_null): the Polars executor counts the missing value as one more distinct value
AggValD(fn, vals, dev) ==
  IF fn = "nunique" /\ "polars_nunique_counts_null" \in dev THEN Cardinality(SetOf(vals)) ELSE AggVal(fn, vals)
ZeroArgAggs == {"_size"}
SrcVals(rows, src) == [i \in 1..Len(rows) |-> IF src = "" THEN 1 ELSE rows[i][src]]

\* ---------------------------------------------------------------- project
\* asg = << <<target, fn, srccol-or-"">>, ... >>.  One row per distinct key tuple, NULL is a key
\* value of its own; exactly one row without grouping, also on empty input (C09).
FirstIdx(s) == {i \in 1..Len(s) : \A j \in 1..(i - 1) : s[j] # s[i]}
Project(t, asg, grp, dev) ==
  LET rows0 == IF "pandas_drops_null_groups" \in dev
                 THEN SelectSeq(t.rows, LAMBDA r : \A i \in 1..Len(grp) : r[grp[i]] # NULL)
                 ELSE t.rows
      keyseq == [i \in 1..Len(rows0) |-> KeyOf(rows0[i], grp)]
      firsts == SetToSortSeq(FirstIdx(keyseq), <)
      tg     == [i \in 1..Len(asg) |-> asg[i][1]]
      oc     == AppendNew(grp, tg)
      GroupRows(key) == SelectSeq(rows0, LAMBDA r : KeyOf(r, grp) = key)
      OutRow(key, g) == [c \in SetOf(oc) |->
                           IF Has(grp, c) THEN key[CHOOSE i \in 1..Len(grp) : grp[i] = c]
                           ELSE LET a == asg[CHOOSE i \in 1..Len(asg) : asg[i][1] = c]
                                IN AggValD(a[2], SrcVals(g, a[3]), dev)]
  IN IF Len(grp) = 0
       THEN IF Len(rows0) = 0 /\ "empty_project_no_row" \in dev
              THEN Tbl(oc, <<>>)
              ELSE Tbl(oc, <<OutRow(<<>>, rows0)>>)
       ELSE Tbl(oc, [j \in 1..Len(firsts) |-> OutRow(keyseq[firsts[j]], GroupRows(keyseq[firsts[j]]))])

\* ---------------------------------------------------------------- windowed extend
\* asg = << <<target, fn, srccol-or-"", n>>, ... >>; partition_by part (<<>> = whole table),
\* order_by ord, reversed columns rev.  Keeps every row (C09); value over the row's ordered partition.
OrderedFns   == {"cumsum", "cummax", "cummin", "shift", "_row_number", "cumprod", "first", "last", "ffill", "bfill"}
\* window functions the method catalogue claims for the Pandas executor only (SQL: 'n')
PandasOnlyFns == {"cumprod", "first", "last", "ffill", "bfill"}
ProdSeq(q) == FoldLeft(LAMBDA a, v : a * v, 1, q)
UnorderedFns == {"sum", "max", "min", "count", "size", "_size", "mean", "nunique"}
\* tags of ill-formed aggregate expressions (C26): "nonagg" = `c + 1` (no aggregation),
\* "complex" = `c.sum() + 1` / `c.cumsum() + 1` (arithmetic on an aggregate), "argexpr" = `(c + 1).sum()`
BadFns == {"nonagg", "complex", "argexpr"}
WinVal(rows, i, a, part, ord, rev, dev) ==
  LET me   == rows[i]
      fn   == a[2]
      src  == a[3]
      n    == a[4]
      pidx == {j \in 1..Len(rows) : KeyOf(rows[j], part) = KeyOf(me, part)}
      Less(p, q) == IF LexLess(rows[p], rows[q], ord, rev, 1) THEN TRUE
                    ELSE IF LexLess(rows[q], rows[p], ord, rev, 1) THEN FALSE ELSE p < q
      sorted == SetToSortSeq(pidx, Less)
      pos  == CHOOSE p \in 1..Len(sorted) : sorted[p] = i
      val(p) == IF src = "" THEN 1 ELSE rows[sorted[p]][src]
      upto == NonNull([p \in 1..pos |-> val(p)])
      all  == [p \in 1..Len(sorted) |-> val(p)]
      hole == "pandas_cum_null_hole" \in dev /\ val(pos) = NULL
  IN IF "pandas_drops_null_groups" \in dev /\ (\E p \in 1..Len(part) : me[part[p]] = NULL)
       THEN NULL
     ELSE CASE fn = "cumsum" -> IF hole \/ Len(upto) = 0 THEN NULL ELSE SumSeq(upto)
            [] fn = "cummax" -> IF hole THEN NULL ELSE MaxOfSeq(upto)
            [] fn = "cummin" -> IF hole THEN NULL ELSE MinOfSeq(upto)
            [] fn = "cumprod" -> IF hole \/ Len(upto) = 0 THEN NULL ELSE ProdSeq(upto)
            \* first / last non-missing value of the ordered partition; forward / backward fill along the order
            [] fn = "first"  -> LET nn == NonNull(all) IN IF Len(nn) = 0 THEN NULL ELSE nn[1]
            [] fn = "last"   -> LET nn == NonNull(all) IN IF Len(nn) = 0 THEN NULL ELSE nn[Len(nn)]
            [] fn = "ffill"  -> IF Len(upto) = 0 THEN NULL ELSE upto[Len(upto)]
            [] fn = "bfill"  -> LET rest == NonNull([p \in 1..(Len(sorted) - pos + 1) |-> val(pos + p - 1)]) IN
                                IF Len(rest) = 0 THEN NULL ELSE rest[1]
            [] fn = "shift"  -> IF pos - n >= 1 /\ pos - n <= Len(sorted) THEN val(pos - n) ELSE NULL
            [] fn = "_row_number" -> pos
            [] OTHER -> AggValD(fn, all, dev)
WExtend(t, asg, part, ord, rev, dev) ==
  LET tg == [i \in 1..Len(asg) |-> asg[i][1]]
      oc == AppendNew(t.cols, tg)
  IN Tbl(oc, [i \in 1..Len(t.rows) |->
                [c \in SetOf(oc) |->
                   IF Has(tg, c)
                     THEN WinVal(t.rows, i, asg[CHOOSE k \in 1..Len(asg) : asg[k][1] = c], part, ord, rev, dev)
                     ELSE t.rows[i][c]]])

\* ---------------------------------------------------------------- row / column selection
SelectRows(t, e, dev) == Tbl(t.cols, SelectSeq(t.rows, LAMBDA r : EvalE(e, r, dev) = 1))
RestrictTo(r, cols) == [c \in SetOf(cols) |-> r[c]]
SelectColumns(t, cols) == Tbl(cols, [i \in 1..Len(t.rows) |-> RestrictTo(t.rows[i], cols)])
DropColumns(t, drop) == SelectColumns(t, Without(t.cols, drop))
\* map = << <<new, old>>, ... >> (direction of rename_columns)
NewName(map, c) == IF \E i \in 1..Len(map) : map[i][2] = c
                     THEN map[CHOOSE i \in 1..Len(map) : map[i][2] = c][1] ELSE c
OldName(map, c) == IF \E i \in 1..Len(map) : map[i][1] = c
                     THEN map[CHOOSE i \in 1..Len(map) : map[i][1] = c][2] ELSE c
Rename(t, map) ==
  LET oc == [i \in 1..Len(t.cols) |-> NewName(map, t.cols[i])]
  IN Tbl(oc, [i \in 1..Len(t.rows) |-> [c \in SetOf(oc) |-> t.rows[i][OldName(map, c)]]])

\* ---------------------------------------------------------------- order_rows
\* lim = 0: no limit; lim = -1 stands for an explicit limit of zero rows (limit=0)
OrderRows(t, cols, rev, lim) ==
  LET s == SortRows(t.rows, cols, rev)
  IN Tbl(t.cols, IF lim = 0 \/ lim >= Len(s) THEN s ELSE IF lim < 0 THEN <<>> ELSE SubSeq(s, 1, lim))

\* ---------------------------------------------------------------- natural_join
\* on = << <<left key, right key>>, ... >>.  Null keys never match (C16).  Every column the two
\* sides share takes the left value, or the right value where the left is missing; other columns
\* come from their own side and are NULL in rows padded by an outer join.
KeyMatch(x, y, dev) ==
  IF x = NULL \/ y = NULL THEN ("pandas_null_keys_match" \in dev /\ x = NULL /\ y = NULL) ELSE x = y
JoinCols(L, R) == AppendNew(L.cols, R.cols)
Join(L, R, jt, on, dev) ==
  LET oc == JoinCols(L, R)
      Match(l, r) == \A p \in 1..Len(on) : KeyMatch(l[on[p][1]], r[on[p][2]], dev)
      Mk(l, r, lok, rok) ==
        [c \in SetOf(oc) |->
           LET lv == IF lok /\ Has(L.cols, c) THEN l[c] ELSE NULL
               rv == IF rok /\ Has(R.cols, c) THEN r[c] ELSE NULL
               keylost == /\ "polars_full_join_right_key_lost" \in dev /\ jt = "FULL" /\ ~lok
                          /\ \E p \in 1..Len(on) : on[p][1] = c
           IN IF keylost THEN NULL ELSE IF lv = NULL THEN rv ELSE lv]
      pairs == [i \in 1..Len(L.rows) |-> SelectSeq(R.rows, LAMBDA r : Match(L.rows[i], r))]
      matched == FlattenSeq([i \in 1..Len(L.rows) |->
                     [j \in 1..Len(pairs[i]) |-> Mk(L.rows[i], pairs[i][j], TRUE, TRUE)]])
      lonly == SelectSeq(L.rows, LAMBDA l : \A j \in 1..Len(R.rows) : ~Match(l, R.rows[j]))
      ronly == SelectSeq(R.rows, LAMBDA r : \A i \in 1..Len(L.rows) : ~Match(L.rows[i], r))
      lo == [i \in 1..Len(lonly) |-> Mk(lonly[i], lonly[i], TRUE, FALSE)]
      ro == [i \in 1..Len(ronly) |-> Mk(ronly[i], ronly[i], FALSE, TRUE)]
  IN Tbl(oc, CASE jt = "INNER" -> matched
               [] jt = "CROSS" -> matched
               [] jt = "LEFT"  -> matched \o lo
               [] jt = "RIGHT" -> matched \o ro
               [] jt = "FULL"  -> matched \o lo \o ro)

\* (B) what SQLiteModel emits for a FULL join (SQLite._emit_full_join_as_complex): the distinct key
\* tuples of both sides (NULL keys included, as GROUP BY keeps them), LEFT JOINed to the left table
\* and then to the right table.  Agrees with Join(.., "FULL", ..) unless a key is NULL: a NULL key
\* tuple matches nothing, so the rows it came from are replaced by one all-NULL row.
\* Requires identical key names on both sides (the code asserts this).
SqliteFullJoin(L, R, on) ==
  LET keys == [p \in 1..Len(on) |-> on[p][1]]
      kl == Tbl(keys, [i \in 1..Len(L.rows) |-> RestrictTo(L.rows[i], keys)])
      kr == Tbl(keys, [i \in 1..Len(R.rows) |-> RestrictTo(R.rows[i], keys)])
      ku == Project(Tbl(keys, kl.rows \o kr.rows), <<>>, keys, {})
      j1 == Join(ku, L, "LEFT", on, {})
      j2 == Join(j1, R, "LEFT", on, {})
  IN Tbl(JoinCols(L, R), j2.rows)
SameNamedKeys(on) == Len(on) > 0 /\ \A p \in 1..Len(on) : on[p][1] = on[p][2]
JoinDev(L, R, jt, on, dev) ==
  IF jt = "FULL" /\ "sqlite_full_join_emulation" \in dev /\ SameNamedKeys(on)
    THEN SqliteFullJoin(L, R, on)
    ELSE Join(L, R, jt, on, dev)

\* ---------------------------------------------------------------- concat_rows
\* id = "" : no source column; else a new column holding 0 for rows of a, 1 for rows of b
Concat(L, R, id) ==
  LET oc == IF id = "" THEN L.cols ELSE Append(L.cols, id)
      Mk(r, tag) == [c \in SetOf(oc) |-> IF c = id THEN tag ELSE r[c]]
  IN Tbl(oc, [i \in 1..Len(L.rows) |-> Mk(L.rows[i], 0)] \o [i \in 1..Len(R.rows) |-> Mk(R.rows[i], 1)])

\* ---------------------------------------------------------------- convert_records (row records -> blocks)
\* unpivot of the value columns vs = <<v1, v2>>: every row becomes one row per value column, keyed by the other
\* columns (the record keys), with the control key kk = j and the value vv = the cell of the j-th value column
Unpivot(t, vs) ==
  LET K == Without(t.cols, vs)
      oc == K \o <<"kk", "vv">>
      n == Len(vs)
  IN Tbl(oc, [q \in 1..(Len(t.rows) * n) |->
                LET r == t.rows[((q - 1) \div n) + 1] j == ((q - 1) % n) + 1 IN
                [c \in SetOf(oc) |-> IF c = "kk" THEN j ELSE IF c = "vv" THEN r[vs[j]] ELSE r[c]]])
UnpivotOK(vs, cols) ==
  /\ Len(vs) = 2 /\ NoDup(vs) /\ SetOf(vs) \subseteq SetOf(cols)
  /\ ~Has(cols, "kk") /\ ~Has(cols, "vv") /\ Len(cols) > Len(vs)

(***************************************************************************)
(* The documented construction rules (C26): is a step with these arguments  *)
(* well formed on a table with columns `cols`?                              *)
(***************************************************************************)
ExprOK(e, cols) == ColsOfE(e) \subseteq SetOf(cols)
ExtendOK(asg, cols) ==
  /\ Len(asg) >= 1 /\ NoDup(Targets(asg))
  /\ \A i \in 1..Len(asg) : ExprOK(asg[i][2], cols)
  \* a column produced in an extend may be used only by its own assignment
  /\ \A i, j \in 1..Len(asg) : i # j => asg[i][1] \notin ColsOfE(asg[j][2])
WExtendOK(asg, part, ord, rev, cols) ==
  LET tg == Targets(asg) IN
  /\ Len(asg) >= 1 /\ NoDup(tg)
  /\ NoDup(part) /\ NoDup(ord) /\ NoDup(rev)
  /\ SetOf(part) \subseteq SetOf(cols) /\ SetOf(ord) \subseteq SetOf(cols)
  /\ SetOf(rev) \subseteq SetOf(ord)
  /\ SetOf(part) \cap SetOf(ord) = {}
  /\ SetOf(tg) \cap (SetOf(part) \cup SetOf(ord)) = {}
  /\ \A i \in 1..Len(asg) :
       LET a == asg[i] IN
       /\ (a[3] = "" \/ Has(cols, a[3]))
       /\ (a[3] = "") = (a[2] \in {"_size", "_row_number"})
       /\ a[2] \in OrderedFns \cup UnorderedFns
       \* ordered window functions need order_by; plain aggregates forbid it (except size/_size/mean)
       /\ (a[2] \in OrderedFns) => (Len(ord) > 0)
       /\ (a[2] \in {"sum", "max", "min", "count", "mean"}) => (Len(ord) = 0)
       /\ \A j \in 1..Len(asg) : i # j => asg[j][3] # a[1]
ProjectOK(asg, grp, cols) ==
  LET tg == Targets(asg) IN
  /\ NoDup(tg) /\ NoDup(grp)
  /\ (Len(asg) >= 1 \/ Len(grp) >= 1)
  /\ SetOf(grp) \subseteq SetOf(cols)
  /\ SetOf(tg) \cap SetOf(grp) = {}
  /\ \A i \in 1..Len(asg) :
       LET a == asg[i] IN
       /\ (a[3] = "" \/ Has(cols, a[3]))
       /\ (a[3] = "") = (a[2] \in ZeroArgAggs)
       /\ a[2] \notin OrderedFns /\ a[2] \notin BadFns
       \* a column produced here may be read only by its own assignment
       /\ \A j \in 1..Len(asg) : i # j => asg[j][3] # a[1]
RenameOK(map, cols) ==
  LET news == [i \in 1..Len(map) |-> map[i][1]]
      olds == [i \in 1..Len(map) |-> map[i][2]]
  IN /\ Len(map) >= 1 /\ NoDup(news) /\ NoDup(olds)
     /\ SetOf(olds) \subseteq SetOf(cols)
     /\ NoDup([i \in 1..Len(cols) |-> NewName(map, cols[i])])
JoinOK(jt, on, lcols, rcols) ==
  /\ jt \in {"INNER", "LEFT", "RIGHT", "FULL", "CROSS"}
  /\ (jt = "CROSS") => (Len(on) = 0)
  /\ \A p \in 1..Len(on) : Has(lcols, on[p][1]) /\ Has(rcols, on[p][2])
\* check_all_common_keys_in_equi_spec: every column the two sides share is an equality key (c = c)
CommonAreKeys(on, lcols, rcols) ==
  \A c \in SetOf(lcols) \cap SetOf(rcols) : \E p \in 1..Len(on) : on[p][1] = c /\ on[p][2] = c
ConcatOK(id, lcols, rcols) ==
  /\ SetOf(lcols) = SetOf(rcols)
  /\ (id = "" \/ ~Has(lcols, id))
=============================================================================
