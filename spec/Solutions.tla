------------------------------ MODULE Solutions ------------------------------
(***************************************************************************)
(* C21: documented meaning of the solution helpers (solutions.py).          *)
(* A table is a sequence of rows [g, o, v, n, m]:                           *)
(*   g partition, o ordering column, v a value that may be missing,         *)
(*   n a replication count (1..MaxCount), m a code to be mapped.            *)
(*   rank_to_average               Rank2(i) = TWICE the mean position of    *)
(*                                 row i's tie group (ties in v) within its  *)
(*                                 partition g, ordered by v                 *)
(*   last_observed_carried_forward Locf(i) = v of the latest row of i's      *)
(*                                 partition at or before i (order o) whose  *)
(*                                 v is not missing; missing if none         *)
(*   replicate_rows_query          each row n times, numbered 0..n-1         *)
(*   def_multi_column_map          m mapped through the mapping table;       *)
(*                                 unmapped codes become missing             *)
(***************************************************************************)
EXTENDS Integers, Sequences, FiniteSets, TLC, Json, Randomization

CONSTANTS NULL, MaxRows, MaxCount, GVals, OVals, VVals, MVals, Mapping,   \* Mapping: function on a subset of MVals
          EmitOneIn

VARIABLES rows
Init == rows = <<>>
AddRow == /\ Len(rows) < MaxRows
          /\ \E g \in GVals, o \in OVals, v \in VVals, n \in 1..MaxCount, m \in MVals :
                rows' = Append(rows, [g |-> g, o |-> o, v |-> v, n |-> n, m |-> m])
Spec == Init /\ [][AddRow]_rows

Part(i) == {j \in 1..Len(rows) : rows[j].g = rows[i].g}
\* observable only when the order column is total within each partition (LOCF) / values are present (rank)
TotalO == \A i, j \in 1..Len(rows) : (i # j /\ rows[i].g = rows[j].g) => rows[i].o # rows[j].o
NoNullV == \A i \in 1..Len(rows) : rows[i].v # NULL

\* rank_to_average: positions 1..k in the partition ordered by v; a tie group occupying positions a..b gets (a+b)/2
Less(i) == Cardinality({j \in Part(i) : rows[j].v < rows[i].v})
Same(i) == Cardinality({j \in Part(i) : rows[j].v = rows[i].v})
Rank2(i) == 2 * Less(i) + Same(i) + 1          \* = 2 * ((Less+1) + (Less+Same)) / 2

\* last observation carried forward
Earlier(i) == {j \in Part(i) : rows[j].o <= rows[i].o /\ rows[j].v # NULL}
Locf(i) == IF Earlier(i) = {} THEN NULL
           ELSE rows[CHOOSE j \in Earlier(i) : \A k \in Earlier(i) : rows[k].o <= rows[j].o].v

\* replicate rows
RECURSIVE Rep(_)
Rep(i) == IF i > Len(rows) THEN <<>> ELSE [q \in 1..rows[i].n |-> [src |-> i, seq |-> q - 1]] \o Rep(i + 1)

Mapped(i) == IF rows[i].m \in DOMAIN Mapping THEN Mapping[rows[i].m] ELSE NULL

\* ---------------------------------------------------------------- laws of the reference
SumOver(S, F(_)) == LET RECURSIVE Acc(_) Acc(T) == IF T = {} THEN 0 ELSE LET x == CHOOSE x \in T : TRUE IN F(x) + Acc(T \ {x}) IN Acc(S)
RankLaw == NoNullV => \A i \in 1..Len(rows) :
             LET k == Cardinality(Part(i)) IN SumOver(Part(i), Rank2) = k * (k + 1)
LocfLaw == TotalO => \A i \in 1..Len(rows) : (rows[i].v # NULL => Locf(i) = rows[i].v)
RepLaw == Len(Rep(1)) = SumOver(1..Len(rows), LAMBDA i : rows[i].n)

Case == [rows |-> rows, total_o |-> TotalO, no_null_v |-> NoNullV,
         rank2 |-> [i \in 1..Len(rows) |-> IF NoNullV THEN Rank2(i) ELSE 0],
         locf |-> [i \in 1..Len(rows) |-> IF TotalO THEN Locf(i) ELSE NULL],
         rep |-> Rep(1), mapped |-> [i \in 1..Len(rows) |-> Mapped(i)]]
Emit == (Len(rows) = MaxRows /\ (EmitOneIn = 1 \/ RandomElement(1..EmitOneIn) = 1)) => PrintT("CASE " \o ToJson(Case))
=============================================================================
