-------------------------------- MODULE Exec --------------------------------
(***************************************************************************)
(* The pipeline machine: a user first supplies input tables (AddRow), then  *)
(* writes a pipeline one builder call at a time (Step).  A pipeline with    *)
(* several inputs is a stack program: "table" pushes an input, "dup"        *)
(* re-uses the current sub-pipeline (a shared node of the operator DAG),    *)
(* unary steps rewrite the top, "join"/"concat" combine the two top         *)
(* entries (left = below, right = top).                                     *)
(*                                                                          *)
(* State: `stack` holds the REFERENCE value (Relational.tla, dev = {}) of   *)
(* every open sub-pipeline; `astack[b]` holds the value predicted for       *)
(* backend b under the named deviations DevOf[b] (what the code is known to *)
(* do, DESIGN.md 6).  `hist` records, per step, acceptance by the           *)
(* documented construction rules and the value on top of the stack; this    *)
(* is what the conformance harness replays into the real code.              *)
(***************************************************************************)
EXTENDS Relational, Json, Randomization

CONSTANTS
  TabCols,      \* table name -> sequence of column names
  ColVals,      \* column name -> set of values an input cell may take
  Kind,         \* column name -> "n" (numeric) | "s" (text)
  MaxRows,      \* rows per input table
  MaxSteps,     \* builder calls per pipeline
  Backends,     \* set of backend names with a deviation model
  DevOf,        \* backend -> set of deviation names
  Level,        \* size of the step alphabet: 1 tiny (exhaustive), 2 rich (simulation)
  GenBad,       \* also generate steps that break a construction rule (C26)
  SampleK,      \* 0: take every candidate step; k > 0: RandomSubset(k, candidates) per state
  Focus,        \* step families to generate: subset of FocusAll
  EmitOneIn,    \* emit (print) one in EmitOneIn of the complete behaviours, chosen at random; 1 = all
  EmitSel       \* "all", or "fork": only behaviours that re-use a sub-pipeline (dup) and end with one open pipeline

VARIABLES phase, inp, prog, stack, prev, astack, hist, ahist,
          dstack,   \* per open sub-pipeline: which input columns its value depends on (reference analysis, C10)
          bstack    \* per open sub-pipeline: the operator DAG the BUILDER holds after its simplifications (B model, C06/C26)
vars == <<phase, inp, prog, stack, prev, astack, hist, ahist, dstack, bstack>>

CONSTANT BDev       \* named deviations of the builder model (DESIGN.md 6): subset of BDevNames
BDevNames == {"merge_common_branch", "select_collapse_unchecked", "join_check_dropped_after_order"}

TabNames == DOMAIN TabCols

\* ------------------------------------------------------------------ applying a step
Top(stk) == stk[Len(stk)]
SetTop(stk, t) == [stk EXCEPT ![Len(stk)] = t]
ApplyI(stk, st, dev, I) ==
  LET n == Len(stk) top == stk[n] IN
  CASE st[1] = "table"          -> Append(stk, I[st[2]])
    [] st[1] = "dup"            -> Append(stk, top)
    [] st[1] = "swap"           -> Append(Append(SubSeq(stk, 1, n - 2), top), stk[n - 1])
    [] st[1] = "extend"         -> SetTop(stk, Extend(top, st[2], dev))
    [] st[1] = "wextend"        -> SetTop(stk, WExtend(top, st[2], st[3], st[4], st[5], dev))
    [] st[1] = "project"        -> SetTop(stk, Project(top, st[2], st[3], dev))
    [] st[1] = "select_rows"    -> SetTop(stk, SelectRows(top, st[2], dev))
    [] st[1] = "select_columns" -> SetTop(stk, SelectColumns(top, st[2]))
    [] st[1] = "drop_columns"   -> SetTop(stk, DropColumns(top, st[2]))
    [] st[1] = "rename"         -> SetTop(stk, Rename(top, st[2]))
    \* map_columns({old: new, ..., deleted: None}): st[2] = <<old, new>> pairs, st[3] = deleted columns
    [] st[1] = "map_columns"    -> SetTop(stk, Rename(DropColumns(top, st[3]), [i \in 1..Len(st[2]) |-> <<st[2][i][2], st[2][i][1]>>]))
    [] st[1] = "order_rows"     -> SetTop(stk, OrderRows(top, st[2], st[3], st[4]))
    [] st[1] = "unpivot"        -> SetTop(stk, Unpivot(top, st[2]))
    [] st[1] = "join"           -> Append(SubSeq(stk, 1, n - 2), JoinDev(stk[n - 1], top, st[2], st[3], dev))
    [] st[1] = "joinc"          -> Append(SubSeq(stk, 1, n - 2), JoinDev(stk[n - 1], top, st[2], st[3], dev))
    [] st[1] = "concat"         -> Append(SubSeq(stk, 1, n - 2), Concat(stk[n - 1], top, st[2]))
Apply(stk, st, dev) == ApplyI(stk, st, dev, inp)

\* the documented construction rules (C26), evaluated on column lists only
WellFormed(st, stk) ==
  LET n == Len(stk) cols == stk[n].cols IN
  CASE st[1] = "table"          -> st[2] \in TabNames
    [] st[1] = "dup"            -> TRUE
    [] st[1] = "swap"           -> n >= 2
    [] st[1] = "extend"         -> ExtendOK(st[2], cols)
    [] st[1] = "wextend"        -> WExtendOK(st[2], st[3], st[4], st[5], cols)
    \* mextend: ONE extend call without window arguments that mixes a row-wise assignment with a window function that
    \* needs an ordering, or with an aggregate of an expression - never well formed (only generated as an ill-formed step)
    [] st[1] = "mextend"        -> FALSE
    [] st[1] = "project"        -> ProjectOK(st[2], st[3], cols)
    [] st[1] = "select_rows"    -> ExprOK(st[2], cols)
    [] st[1] = "select_columns" -> Len(st[2]) >= 1 /\ NoDup(st[2]) /\ SetOf(st[2]) \subseteq SetOf(cols)
    [] st[1] = "drop_columns"   -> NoDup(st[2]) /\ SetOf(st[2]) \subseteq SetOf(cols) /\ Len(st[2]) < Len(cols)
    [] st[1] = "rename"         -> RenameOK(st[2], cols)
    [] st[1] = "map_columns"    -> /\ NoDup(st[3]) /\ SetOf(st[3]) \subseteq SetOf(cols) /\ Len(st[3]) < Len(cols)
                                   /\ \A i \in 1..Len(st[2]) : ~Has(st[3], st[2][i][1])
                                   /\ RenameOK([i \in 1..Len(st[2]) |-> <<st[2][i][2], st[2][i][1]>>], Without(cols, st[3]))
    [] st[1] = "order_rows"     -> NoDup(st[2]) /\ SetOf(st[2]) \subseteq SetOf(cols) /\ SetOf(st[3]) \subseteq SetOf(st[2])
    [] st[1] = "unpivot"        -> UnpivotOK(st[2], cols)
    [] st[1] = "join"           -> n >= 2 /\ JoinOK(st[2], st[3], stk[n - 1].cols, cols)
    \* joinc = natural_join(..., check_all_common_keys_in_equi_spec=True)
    [] st[1] = "joinc"          -> n >= 2 /\ JoinOK(st[2], st[3], stk[n - 1].cols, cols)
                                         /\ CommonAreKeys(st[3], stk[n - 1].cols, cols)
    [] st[1] = "concat"         -> n >= 2 /\ ConcatOK(st[2], stk[n - 1].cols, cols)

\* Observability: constructs whose result the documentation leaves open are not generated
\* (ties under a limit, non-total or null-containing window orders: C18/C27 quantify over total orders)
Observable(st, stk) ==
  LET top == Top(stk) IN
  CASE st[1] = "wextend" ->
         /\ NullFreeOn(top.rows, st[4])
         /\ (Len(st[4]) > 0 => TotalOn(top.rows, st[3] \o st[4]))
    [] st[1] = "order_rows" ->
         (st[4] > 0) => (NullFreeOn(top.rows, st[2]) /\ TotalOn(top.rows, st[2]))
    \* convert_records needs a table keyed by its record keys (no duplicates, no missing keys)
    [] st[1] = "unpivot" -> LET K == Without(top.cols, st[2]) IN TotalOn(top.rows, K) /\ NullFreeOn(top.rows, K)
    \* arguments outside a method's documented domain (division by zero, log of a negative, ...) are not observed
    [] st[1] = "extend" -> \A i \in 1..Len(st[2]) : \A r \in 1..Len(top.rows) : DefinedE(st[2][i][2], top.rows[r])
    [] st[1] = "select_rows" -> \A r \in 1..Len(top.rows) : DefinedE(st[2], top.rows[r])
    [] OTHER -> TRUE

\* is the row ORDER of the result defined (C18)?  only directly after a total, null-free order_rows
Ordered(st, post) ==
  st[1] = "order_rows" /\ Len(st[2]) > 0 /\ NullFreeOn(post.rows, st[2]) /\ TotalOn(post.rows, st[2])

\* documented destination convention reached (C01): sum/count over a group with no non-null value,
\* or an ungrouped aggregate of an empty table
ConvPoint(st, stk) ==
  LET top == Top(stk) IN
  CASE st[1] = "project" ->
         \/ (Len(st[3]) = 0 /\ Len(top.rows) = 0)
         \/ \E i \in 1..Len(st[2]) :
              /\ st[2][i][2] \in {"sum", "count"}
              /\ \E r \in SetOf(top.rows) :
                    \A q \in SetOf(top.rows) : KeyOf(q, st[3]) = KeyOf(r, st[3]) => q[st[2][i][3]] = NULL
    [] st[1] = "wextend" ->
         \E i \in 1..Len(st[2]) :
              /\ st[2][i][2] \in {"sum", "count"}
              /\ \E r \in SetOf(top.rows) :
                    \A q \in SetOf(top.rows) : KeyOf(q, st[3]) = KeyOf(r, st[3]) => q[st[2][i][3]] = NULL
    [] OTHER -> FALSE

\* ------------------------------------------------------------------ dependency analysis (C10)
\* Reference analysis of which input columns a sub-pipeline's value can depend on.  An entry is
\* [c |-> function from its columns to sets of <<table, column>>, r |-> set of <<table, column>>]:
\* c[x] = inputs the CELLS of column x are computed from, r = inputs that decide WHICH ROWS exist
\* (conditions, group keys, join keys, order/limit keys).  Used = r plus every output column's set.
DepTable(t) == [c |-> [x \in SetOf(TabCols[t]) |-> {<<t, x>>}], r |-> {}]
ColsDeps(d, S) == UNION {d.c[x] : x \in S \cap DOMAIN d.c}
AsgOf(asg, x) == asg[CHOOSE i \in 1..Len(asg) : asg[i][1] = x]
DepApply(dstk, st) ==
  LET n == Len(dstk) top == dstk[n] IN
  CASE st[1] = "table" -> Append(dstk, DepTable(st[2]))
    [] st[1] = "dup"   -> Append(dstk, top)
    [] st[1] = "swap"  -> Append(Append(SubSeq(dstk, 1, n - 2), top), dstk[n - 1])
    [] st[1] = "extend" ->
         LET tg == SetOf(Targets(st[2])) IN
         SetTop(dstk, [top EXCEPT !.c = [x \in DOMAIN top.c \cup tg |->
                         IF x \in tg THEN ColsDeps(top, ColsOfE(AsgOf(st[2], x)[2])) ELSE top.c[x]]])
    [] st[1] = "wextend" ->
         LET tg == SetOf(Targets(st[2])) win == ColsDeps(top, SetOf(st[3]) \cup SetOf(st[4])) IN
         SetTop(dstk, [top EXCEPT !.c = [x \in DOMAIN top.c \cup tg |->
                         IF x \in tg THEN ColsDeps(top, {AsgOf(st[2], x)[3]}) \cup win \cup top.r ELSE top.c[x]]])
    [] st[1] = "project" ->
         LET tg == SetOf(Targets(st[2])) g == SetOf(st[3]) IN
         SetTop(dstk, [c |-> [x \in g \cup tg |-> IF x \in tg THEN ColsDeps(top, {AsgOf(st[2], x)[3]}) ELSE top.c[x]],
                       r |-> top.r \cup ColsDeps(top, g)])
    [] st[1] = "select_rows"    -> SetTop(dstk, [top EXCEPT !.r = @ \cup ColsDeps(top, ColsOfE(st[2]))])
    [] st[1] = "select_columns" -> SetTop(dstk, [top EXCEPT !.c = [x \in SetOf(st[2]) |-> top.c[x]]])
    [] st[1] = "drop_columns"   -> SetTop(dstk, [top EXCEPT !.c = [x \in DOMAIN top.c \ SetOf(st[2]) |-> top.c[x]]])
    [] st[1] = "rename" ->
         SetTop(dstk, [top EXCEPT !.c = [x \in {NewName(st[2], y) : y \in DOMAIN top.c} |-> top.c[OldName(st[2], x)]]])
    [] st[1] = "map_columns" ->
         LET keep == DOMAIN top.c \ SetOf(st[3])
             rn == [i \in 1..Len(st[2]) |-> <<st[2][i][2], st[2][i][1]>>] IN
         SetTop(dstk, [top EXCEPT !.c = [x \in {NewName(rn, y) : y \in keep} |-> top.c[OldName(rn, x)]]])
    [] st[1] = "order_rows"     -> SetTop(dstk, [top EXCEPT !.r = @ \cup ColsDeps(top, SetOf(st[2]))])
    [] st[1] = "unpivot" ->
         LET K == DOMAIN top.c \ SetOf(st[2]) IN
         SetTop(dstk, [top EXCEPT !.c = [x \in K \cup {"kk", "vv"} |->
                         IF x = "kk" THEN {} ELSE IF x = "vv" THEN ColsDeps(top, SetOf(st[2])) ELSE top.c[x]]])
    [] st[1] \in {"join", "joinc"} ->
         LET L == dstk[n - 1] R == top on == st[3]
             kl == {on[p][1] : p \in 1..Len(on)}  kr == {on[p][2] : p \in 1..Len(on)} IN
         Append(SubSeq(dstk, 1, n - 2),
                [c |-> [x \in DOMAIN L.c \cup DOMAIN R.c |-> ColsDeps(L, {x}) \cup ColsDeps(R, {x})],
                 r |-> L.r \cup R.r \cup ColsDeps(L, kl) \cup ColsDeps(R, kr)])
    [] st[1] = "concat" ->
         LET L == dstk[n - 1] R == top IN
         Append(SubSeq(dstk, 1, n - 2),
                [c |-> [x \in DOMAIN L.c \cup (IF st[2] = "" THEN {} ELSE {st[2]}) |-> ColsDeps(L, {x}) \cup ColsDeps(R, {x})],
                 r |-> L.r \cup R.r])
UsedOf(d) == d.r \cup UNION {d.c[x] : x \in DOMAIN d.c}

\* ------------------------------------------------------------------ the builder (B model, C06 / C26)
\* What the real builder methods construct (view_representations.py): a DAG term
\*   <<"table", t>> | <<"n1", step, source>> | <<"n2", step, left, right>>
\* built with the code's simplifications: an order_rows without limit is dropped when another step
\* is put on it (is_trivial_when_intermediate_), consecutive extends are merged when
\* try_to_merge_ops allows it, select_columns on a select/drop node goes to that node's source.
\* BDev names what the code is KNOWN to do wrongly (DESIGN.md 6); BDev = {} is the repaired code.
RECURSIVE EvalDag(_, _)
EvalDag(d, I) ==
  CASE d[1] = "table" -> I[d[2]]
    [] d[1] = "n1"    -> Top(ApplyI(<<EvalDag(d[3], I)>>, d[2], {}, I))
    [] d[1] = "n2"    -> Top(ApplyI(<<EvalDag(d[3], I), EvalDag(d[4], I)>>, d[2], {}, I))
DagCols(d) == EvalDag(d, [t \in TabNames |-> Tbl(TabCols[t], <<>>)]).cols
IsTrivial(d) == d[1] = "n1" /\ d[2][1] = "order_rows" /\ d[2][4] = 0
\* data_ops_utils.try_to_merge_ops on the (produced, used) sets of two assignment lists;
\* used(asg) is given as an operator so that it serves row-wise and windowed assignments
AsgRestrict(asg, S) == SelectSeq(asg, LAMBDA a : a[1] \in S)
MergeAsg(a1, a2, U(_)) ==
  LET p1 == {a1[i][1] : i \in 1..Len(a1)}  p2 == {a2[i][1] : i \in 1..Len(a2)}
      common == p1 \cap p2
      u1 == U(a1) u2 == U(a2)
      u1c == U(AsgRestrict(a1, common)) u2c == U(AsgRestrict(a2, common))
      kept == AsgRestrict(a1, p1 \ common)
  IN IF common # {}
       THEN IF \/ u1c \cap p2 # {} \/ u1c \cap p1 # {} \/ u2c \cap p1 # {} \/ u2c \cap p2 # {}
               \/ ("merge_common_branch" \notin BDev /\ (u2 \cap p1 # {} \/ U(kept) \cap p2 # {}))
              THEN <<>> ELSE kept \o a2
       ELSE IF u1 \cap p2 # {} \/ u2 \cap p1 # {} THEN <<>> ELSE a1 \o a2
UsedRow(asg) == UNION {ColsOfE(asg[i][2]) : i \in 1..Len(asg)}
UsedWin(asg) == {asg[i][3] : i \in 1..Len(asg)} \ {""}
RECURSIVE Build1(_, _)
Build1(d, st) ==
  IF st[1] = "select_columns" /\ st[2] = DagCols(d) THEN d
  ELSE IF IsTrivial(d) THEN Build1(d[3], st)
  ELSE CASE st[1] = "extend" ->
              IF d[1] = "n1" /\ d[2][1] = "extend" /\ MergeAsg(d[2][2], st[2], UsedRow) # <<>>
                THEN <<"n1", <<"extend", MergeAsg(d[2][2], st[2], UsedRow)>>, d[3]>>
                ELSE <<"n1", st, d>>
         [] st[1] = "wextend" ->
              IF /\ d[1] = "n1" /\ d[2][1] = "wextend"
                 /\ d[2][3] = st[3] /\ d[2][4] = st[4] /\ d[2][5] = st[5]
                 /\ MergeAsg(d[2][2], st[2], UsedWin) # <<>>
                THEN <<"n1", <<"wextend", MergeAsg(d[2][2], st[2], UsedWin), st[3], st[4], st[5]>>, d[3]>>
                ELSE <<"n1", st, d>>
         [] st[1] = "select_columns" ->
              IF d[1] = "n1" /\ d[2][1] \in {"select_columns", "drop_columns"} THEN Build1(d[3], st)
              ELSE <<"n1", st, d>>
         [] OTHER -> <<"n1", st, d>>
RECURSIVE Build2(_, _, _)
Build2(l, r, st) ==
  IF IsTrivial(l)
    THEN Build2(l[3], r, IF st[1] = "joinc" /\ "join_check_dropped_after_order" \in BDev THEN <<"join", st[2], st[3]>> ELSE st)
    ELSE <<"n2", st, l, r>>
BApply(bstk, st) ==
  LET n == Len(bstk) IN
  CASE st[1] = "table" -> Append(bstk, <<"table", st[2]>>)
    [] st[1] = "dup"   -> Append(bstk, bstk[n])
    [] st[1] = "swap"  -> Append(Append(SubSeq(bstk, 1, n - 2), bstk[n]), bstk[n - 1])
    [] st[1] \in {"join", "joinc", "concat"} -> Append(SubSeq(bstk, 1, n - 2), Build2(bstk[n - 1], bstk[n], st))
    [] OTHER -> SetTop(bstk, Build1(bstk[n], st))
\* does the BUILDER accept the step?  The code validates a step against the node it finally lands on.
RECURSIVE Landing(_, _)
Landing(d, st) ==
  IF IsTrivial(d) THEN Landing(d[3], st)
  ELSE IF st[1] = "select_columns" /\ "select_collapse_unchecked" \in BDev
          /\ d[1] = "n1" /\ d[2][1] \in {"select_columns", "drop_columns"} THEN Landing(d[3], st)
  ELSE d
BAccepts(bstk, stk, st) ==
  LET n == Len(bstk) IN
  IF st[1] = "select_columns" /\ n >= 1
    THEN WellFormed(st, <<Tbl(DagCols(Landing(bstk[n], st)), <<>>)>>)
  ELSE IF st[1] = "joinc" /\ n >= 2 /\ "join_check_dropped_after_order" \in BDev /\ IsTrivial(bstk[n - 1])
    THEN WellFormed(<<"join", st[2], st[3]>>, stk)
  ELSE WellFormed(st, stk)
\* shape of a DAG term for comparison with the real operator DAG (MODEL-DRIFT only)
RECURSIVE DagShape(_)
DagShape(d) ==
  CASE d[1] = "table" -> <<"table", d[2]>>
    [] d[1] = "n1"    -> <<d[2][1], IF d[2][1] \in {"extend", "wextend", "project"} THEN Targets(d[2][2]) ELSE <<>>, DagShape(d[3])>>
    [] d[1] = "n2"    -> <<d[2][1], DagShape(d[3]), DagShape(d[4])>>

\* ------------------------------------------------------------------ step alphabet
\* Column kinds: "n" numeric, "s" text, "b" boolean (only derived columns p, q are boolean).
\* Expressions are typed by construction: arithmetic over numeric columns, comparisons and
\* connectives give booleans, which are stored only in boolean columns.
C(c) == <<"c", c>>
K(v) == <<"k", v>>
Pairs(S) == {p \in S \X S : p[1] # p[2]}
Samp(k, S) == IF SampleK = 0 \/ Cardinality(S) <= k THEN S ELSE RandomSubset(k, S)
KindCols(cols, k) == {c \in SetOf(cols) : Kind[c] = k}
KeyCols(cols) == {c \in SetOf(cols) : Kind[c] \notin {"b", "q"}}      \* "q": columns that may hold fractions (means)

\* Dependency-directed generation: columns written by the previous step are preferred as keys, sources
\* and operands of the next step, so that interactions between consecutive steps (builder merges, SQL
\* extend merging, column pruning) are exercised far more often than uniform sampling would.
LastT == IF Len(prog) = 0 THEN {}
         ELSE LET st == prog[Len(prog)] IN
              IF st[1] \in {"extend", "wextend", "project"} THEN {st[2][i][1] : i \in 1..Len(st[2])}
              ELSE IF st[1] = "rename" THEN {st[2][i][1] : i \in 1..Len(st[2])}
              ELSE IF st[1] = "map_columns" THEN {st[2][i][2] : i \in 1..Len(st[2])}
              ELSE {}
HasT(q) == \E i \in 1..Len(q) : q[i] \in LastT
ExprT(e) == ColsOfE(e) \cap LastT # {}
AsgT(a) == a[3] \in LastT \/ a[1] \in LastT
\* k random members plus (in simulation) up to two members that touch the previous step's outputs
Bias(k, S, P(_)) == IF SampleK = 0 THEN S ELSE Samp(k, S) \cup Samp(2, {x \in S : P(x)})

Conds(N, Bc) ==
  {<<"b", cmp, C(c), K(1)>> : cmp \in {">", "=="}, c \in N} \cup {C(c) : c \in Bc}
BasicArith == {"+", "-", "*"}      \* the multi-step alphabets stay within the integers
ArithExprs(N, Bc) ==
  IF Level = 1
    THEN {<<"b", "+", C(c), K(1)>> : c \in N}
         \cup {<<"b", "-", C(p[1]), C(p[2])>> : p \in Pairs(N)}
         \cup {<<"b", "coalesce", C(c), K(0)>> : c \in N}
    ELSE {<<"b", op, C(c), K(1)>> : op \in BasicArith, c \in N}
         \cup {<<"b", op, C(p[1]), C(p[2])>> : op \in BasicArith \cup PickOps, p \in Pairs(N)}
         \cup {<<"u", op, C(c)>> : op \in {"neg", "abs", "sign"}, c \in N}
         \cup {<<"b", "coalesce", C(c), K(0)>> : c \in N}
         \cup {<<"t", op, cnd, C(c), K(2)>> : op \in {"if_else", "where"}, cnd \in Conds(N, Bc), c \in N}
         \cup {<<"b", "*", <<"b", "+", C(p[1]), K(1)>>, C(p[2])>> : p \in Pairs(N)}
         \cup {<<"b", "-", K(3), <<"u", "neg", C(c)>>>> : c \in N}
BoolExprs(N, S, Bc) ==
  IF Level = 1
    THEN {<<"b", op, C(c), K(1)>> : op \in {">", "=="}, c \in N}
         \cup {<<"u", "is_null", C(c)>> : c \in N}
    ELSE {<<"b", op, C(c), K(1)>> : op \in CmpOps, c \in N}
         \cup {<<"b", op, C(p[1]), C(p[2])>> : op \in {"<", "==", "!=", ">="}, p \in Pairs(N)}
         \cup {<<"b", op, C(c), <<"ks", 1>>>> : op \in {"==", "!="}, c \in S}
         \cup {<<"u", "not", <<"b", ">", C(c), K(0)>>>> : c \in N}
         \cup {<<"u", op, C(c)>> : op \in {"is_null", "is_bad"}, c \in N}
         \cup {<<"u", "is_null", C(c)>> : c \in S}
         \cup {<<"u", "not", <<"u", "is_null", C(c)>>>> : c \in N}
         \cup {<<"b", lop, <<"b", ">", C(p[1]), K(0)>>, <<"b", "<", C(p[2]), K(2)>>>> : lop \in LogicOps, p \in Pairs(N)}
         \cup {<<"in", C(c), l>> : c \in N, l \in {<<0, 2>>, <<1, 2>>}}
         \cup {<<"b", ">", C(c), K(2)>> : c \in N}
         \cup {C(c) : c \in Bc}
         \cup {<<"u", "not", C(c)>> : c \in Bc}
         \cup {<<"b", lop, C(p[1]), C(p[2])>> : lop \in LogicOps, p \in Pairs(Bc)}

\* key lists (group_by / partition_by / order_by / select lists) of length 0..maxlen
KeyLists(S, maxlen) ==
  {<<>>} \cup {<<c>> : c \in S}
         \cup (IF maxlen >= 2 THEN {<<p[1], p[2]>> : p \in Pairs(S)} ELSE {})

\* Level 3 (C05): one single-method expression per catalogued scalar method, over the numeric columns
MethodExprs(N) ==
  {<<"u", op, C(c)>> : op \in {"neg", "abs", "sign", "floor", "ceil", "is_null", "is_bad", "coalesce_0"} \cup UFNames, c \in N}
  \cup {<<"b", op, C(p[1]), C(p[2])>> : op \in ArithOps \cup CmpOps \cup PickOps, p \in Pairs(N)}
  \cup {<<"b", op, C(c), K(2)>> : op \in {"+", "-", "*", "/", "//", "%", "**", "mod", "remainder", "maximum", "fmin"}, c \in N}
  \cup {<<"b", lop, <<"b", ">", C(p[1]), K(0)>>, <<"b", "<", C(p[2]), K(2)>>>> : lop \in LogicOps, p \in Pairs(N)}
  \cup {<<"u", "not", <<"b", ">", C(c), K(0)>>>> : c \in N}
  \cup {<<"t", op, <<"b", ">", C(p[1]), K(0)>>, C(p[1]), C(p[2])>> : op \in {"if_else", "where"}, p \in Pairs(N)}
  \* a compound condition directly under if_else / where
  \cup {<<"t", op, <<"b", lop, <<"b", ">", C(p[1]), K(0)>>, <<"b", "<", C(p[2]), K(2)>>>>, C(p[1]), K(7)>> :
           op \in {"if_else", "where"}, lop \in LogicOps, p \in Pairs(N)}
  \cup {<<"in", C(c), <<1, 3>>>> : c \in N}
  \* methods of fractions (halves and quarters: exact ties for round), is_nan
  \cup {<<"uq", op, <<"b", "/", C(c), K(d)>>>> : op \in QOps, c \in N, d \in {2, 4}}
  \cup {<<"nan", C(c)>> : c \in N} \cup {<<"nan", <<"b", "/", C(c), K(2)>>>> : c \in N}
  \cup {<<"around", C(c), 0 - 1>> : c \in N} \cup {<<"around", <<"b", "*", C(c), K(7)>>, 0 - 1>> : c \in N}
\* text methods of the catalogue over the text columns: results land in a text column (t) or a numeric one (z)
TextExprsT(S) ==
  {<<"cat", C(p[1]), C(p[2])>> : p \in Pairs(S)} \cup {<<"cat", C(c), <<"ks", 9>>>> : c \in S}
  \cup {<<"trim", C(c), 0, 1>> : c \in S} \cup {<<"trim", C(c), 1, 2>> : c \in S}
  \* a slice with start > 0 and more text after stop (the cells alone are two characters long)
  \cup {<<"trim", <<"cat", C(p[1]), C(p[2])>>, 1, 3>> : p \in Pairs(S)}
  \cup {<<"b", "coalesce", C(c), <<"ks", 7>>>> : c \in S}
TextExprsZ(S) ==
  {<<"mapv", C(c)>> : c \in S} \cup {<<"in", C(c), <<0, 7>>>> : c \in S}
  \cup {<<"b", op, C(c), <<"ks", 0>>>> : op \in {"==", "!="}, c \in S}
  \cup {<<"u", "is_null", C(c)>> : c \in S}
ExtendSteps(cols) ==
  IF Level = 3 THEN {<<"extend", <<<<"z", e>>>>>> : e \in MethodExprs(KindCols(cols, "n")) \cup TextExprsZ(KindCols(cols, "s"))}
                    \cup {<<"extend", <<<<"t", e>>>>>> : e \in TextExprsT(KindCols(cols, "s"))} ELSE
  LET N  == KindCols(cols, "n")
      Bc == KindCols(cols, "b")
      S  == KindCols(cols, "s")
      AE == Bias(3, ArithExprs(N, Bc), ExprT)
      BE == Bias(3, BoolExprs(N, S, Bc), ExprT)
      NT == IF Level = 1 THEN {"z"} \cup N ELSE Samp(2, {"z", "w"} \cup N) \cup Samp(1, LastT \cap N)
      BT == IF Level = 1 THEN {"p"} ELSE Samp(1, {"p", "q"})
  IN {<<"extend", <<<<t, e>>>>>> : t \in NT, e \in AE}
     \cup {<<"extend", <<<<t, e>>>>>> : t \in BT, e \in BE}
     \cup (IF Level = 1 THEN {}
           ELSE {<<"extend", <<<<"z", e1>>, <<"p", e2>>>>>> : e1 \in Samp(2, AE), e2 \in Samp(2, BE)}
                \cup {<<"extend", <<<<"z", e1>>, <<"w", e2>>>>>> : e1 \in Samp(2, AE), e2 \in Samp(2, AE)})
WinAsg(N) ==
  {<<"w", fn, c, 0>> : fn \in {"sum", "max", "min", "count", "size"}, c \in N}
  \cup {<<"w", "_size", "", 0>>}
  \cup (IF Level >= 2 THEN {<<"m", "mean", c, 0>> : c \in N} ELSE {})
OrdAsg(N) ==
  {<<"w", fn, c, 0>> : fn \in {"cumsum", "cummax", "cummin"} \cup (IF Level >= 2 THEN PandasOnlyFns ELSE {}), c \in N}
  \cup {<<"w", "shift", c, n>> : c \in N, n \in (IF Level = 1 THEN {1} ELSE {1, 2, 0 - 1})}
  \cup {<<"w", "_row_number", "", 0>>}
WExtendSteps(cols) ==
  LET N == KindCols(cols, "n") KC == KeyCols(cols) IN
  {<<"wextend", <<a>>, p, <<>>, <<>>>> : a \in Bias(3, WinAsg(N), AsgT), p \in Bias(3, KeyLists(KC, Level), HasT)}
  \cup {<<"wextend", <<a>>, p, o, r>> : a \in Bias(3, OrdAsg(N), AsgT), p \in Bias(2, KeyLists(KC, 1), HasT),
           o \in Bias(2, KeyLists(KC, Level) \ {<<>>}, HasT), r \in Samp(2, {<<>>} \cup {<<c>> : c \in KC})}
  \cup (IF Level = 1 THEN {}
        ELSE {<<"wextend", <<<<"w", "sum", c, 0>>, <<"z", "max", c, 0>>>>, p, <<>>, <<>>>> :
                 c \in Samp(1, N), p \in Samp(2, KeyLists(KC, 1))}
             \cup {<<"wextend", <<<<"w", "cumsum", c, 0>>, <<"z", "_row_number", "", 0>>>>, p, o, <<>>>> :
                 c \in Samp(1, N), p \in Samp(1, KeyLists(KC, 1)), o \in Samp(2, KeyLists(KC, 1) \ {<<>>})})
ProjAsg(N) ==
  {<<"z", fn, c>> : fn \in {"sum", "max", "min", "count", "size"}, c \in N}
  \cup {<<"z", "_size", "">>}
  \cup (IF Level >= 2 THEN {<<"m", "mean", c>> : c \in N} \cup {<<"z", "nunique", c>> : c \in N} ELSE {})
ProjectSteps(cols) ==
  LET N == KindCols(cols, "n") KC == KeyCols(cols) IN
  {<<"project", <<a>>, g>> : a \in Bias(3, ProjAsg(N), AsgT), g \in Bias(3, KeyLists(KC, Level), HasT)}
  \cup {<<"project", <<>>, g>> : g \in Samp(1, KeyLists(KC, Level) \ {<<>>})}
  \cup (IF Level = 1 THEN {}
        ELSE {<<"project", <<<<"z", "sum", c>>, <<"w", "_size", "">>>>, g>> : c \in Samp(1, N), g \in Samp(2, KeyLists(KC, 1))})
SelectRowsSteps(cols) ==
  {<<"select_rows", e>> : e \in Bias(4, BoolExprs(KindCols(cols, "n"), KindCols(cols, "s"), KindCols(cols, "b")), ExprT)}
ColumnSteps(cols) ==
  {<<"select_columns", k>> : k \in Bias(2, KeyLists(SetOf(cols), 2) \ {<<>>}, HasT)}
  \cup {<<"drop_columns", k>> : k \in Bias(2, KeyLists(SetOf(cols), Level) \ {<<>>}, HasT)}
  \cup (IF Level = 1 THEN {}
        ELSE {<<"rename", <<<<q[1], q[2]>>>>>> :
                 q \in Samp(2, {r \in {"x2", "h2"} \X SetOf(cols) : Kind[r[1]] = Kind[r[2]]})}
             \cup {<<"rename", <<<<p[1], p[2]>>, <<p[2], p[1]>>>>>> :
                      p \in Samp(1, {q \in Pairs(SetOf(cols)) : Kind[q[1]] = Kind[q[2]]})}
             \cup {<<"unpivot", <<p[1], p[2]>>>> : p \in Samp(1, Pairs(KindCols(cols, "n")))}
             \cup {<<"map_columns", <<<<q[2], q[1]>>>>, d>> :
                      q \in Samp(2, {r \in {"x2", "h2"} \X SetOf(cols) : Kind[r[1]] = Kind[r[2]]}),
                      d \in Samp(2, {<<>>} \cup {<<c>> : c \in SetOf(cols)})}
             \* every column, in reverse order (a full permutation: nothing is dropped, only the order is declared)
             \cup (IF Len(cols) >= 2 THEN {<<"select_columns", [i \in 1..Len(cols) |-> cols[Len(cols) + 1 - i]]>>} ELSE {})
             \* a column renamed onto the name of a column the same call deletes: {'x': 'y', 'y': None}
             \cup {<<"map_columns", <<<<p[1], p[2]>>>>, <<p[2]>>>> :
                      p \in Samp(2, {q \in Pairs(SetOf(cols)) : Kind[q[1]] = Kind[q[2]]})})
OrderSteps(cols) ==
  LET KC == KeyCols(cols) IN
  {<<"order_rows", k, r, lim>> : k \in Bias(2, KeyLists(KC, Level) \ {<<>>}, HasT),
       r \in Samp(2, {<<>>} \cup {<<c>> : c \in KC}), lim \in (IF Level = 1 THEN {0, 1} ELSE {0, 1, 2, 0 - 1})}
StackSteps ==
  {<<"table", t>> : t \in TabNames} \cup {<<"dup">>}
BinarySteps(lcols, rcols) ==
  LET keysL == KeyCols(lcols) keysR == KeyCols(rcols)
      same  == keysL \cap keysR
      diffp == {p \in keysL \X keysR : p[1] # p[2] /\ Kind[p[1]] = Kind[p[2]]}
  IN {<<"join", jt, <<<<c, c>>>>>> : jt \in {"INNER", "LEFT", "RIGHT", "FULL"}, c \in same}
     \cup {<<"join", "CROSS", <<>>>>, <<"join", "INNER", <<>>>>}
     \cup (IF Level = 1 THEN {}
           ELSE {<<"join", jt, <<<<p[1], p[2]>>>>>> : jt \in {"INNER", "LEFT", "RIGHT", "FULL"}, p \in Samp(2, diffp)}
                \cup {<<"join", jt, <<<<p[1], p[1]>>, <<p[2], p[2]>>>>>> :
                         jt \in {"INNER", "LEFT", "FULL"}, p \in Samp(1, Pairs(same))}
                \* crossed keys: a name occurs on both sides, but never in one pair (left.a = right.b and left.b = right.a)
                \cup {<<"join", jt, <<<<p[1], p[2]>>, <<p[2], p[1]>>>>>> :
                         jt \in {"INNER", "LEFT", "RIGHT", "FULL"}, p \in Samp(1, {q \in Pairs(same) : Kind[q[1]] = Kind[q[2]]})})
     \cup {<<"concat", id>> : id \in {"", "src"}}
     \cup {<<"joinc", jt, <<<<c, c>>>>>> : jt \in {"INNER", "LEFT"}, c \in same}

\* two-assignment extends over a small target pool: the shapes on which try_to_merge_ops decides (C06)
Extend2Steps(cols) ==
  LET N == KindCols(cols, "n")
      E == {<<"b", "+", C(c), K(1)>> : c \in N}
  IN {<<"extend", <<<<p[1], e1>>, <<p[2], e2>>>>>> : p \in Samp(3, Pairs({"x", "y", "z"})), e1 \in Samp(2, E), e2 \in Samp(2, E)}
\* Level 0: a micro alphabet for deep exhaustive exploration of fork / merge / re-join shapes (C04):
\* a shared prefix, two branches that each get their own extends, combined again
MicroSteps(f, stk) ==
  LET n == Len(stk) cols == stk[n].cols N == KindCols(cols, "n") IN
  CASE f = "extend"  -> {<<"extend", <<<<"z", <<"b", "+", C(c), K(1)>>>>>>>> : c \in {"o"} \cap N}
                        \cup {<<"extend", <<<<"x", <<"b", "+", C(c), K(1)>>>>>>>> : c \in {"x"} \cap N}
    [] f = "wextend" -> {<<"wextend", <<<<"w", "sum", c, 0>>>>, <<"o">>, <<>>, <<>>>> : c \in {"y"} \cap N}
                        \cup {<<"wextend", <<<<"w", "_size", "", 0>>>>, <<"o">>, <<>>, <<>>>>}
    [] f = "stack"   -> IF n < 2 THEN {<<"dup">>} \cup {<<"table", t>> : t \in TabNames \ {"t1"}} ELSE {<<"swap">>}
    [] f = "binary"  -> IF n >= 2 THEN {<<"concat", "">>, <<"join", "INNER", <<<<"o", "o">>>>>>} ELSE {}
    \* an extend that RE-ORDERS a column (o := x - o) or makes a new ordering column, then windows ordered by it
    [] f = "xo"      -> {<<"extend", <<<<t, <<"b", "-", C("x"), C("o")>>>>>>>> : t \in {"o", "z"}}
    [] f = "wo"      -> {<<"wextend", <<a>>, p, <<k>>, r>> :
                           a \in {<<"w", "cumsum", "x", 0>>, <<"w", "_row_number", "", 0>>, <<"w", "shift", "x", 1>>},
                           k \in {"o", "z"} \cap SetOf(cols), p \in {<<>>, <<"y">>}, r \in {<<>>} \cup {<<kk>> : kk \in {"o", "z"} \cap SetOf(cols)}}
    \* windows over two-column orderings in both priorities (ties in the leading column make them differ)
    [] f = "wo2"     -> {<<"wextend", <<a>>, <<>>, k, r>> :
                           a \in {<<"w", "cumsum", "x", 0>>, <<"v", "_row_number", "", 0>>},
                           k \in {<<"o", "x">>, <<"x", "o">>}, r \in {<<>>, <<"o">>}}
    \* a grouped aggregate over a re-computed key, a selection / drop right after it
    [] f = "po"      -> {<<"project", <<<<"w", fn, "x">>>>, <<k>>>> : fn \in {"sum", "max"}, k \in {"o", "z"} \cap SetOf(cols)}
    [] f = "co"      -> {<<"drop_columns", <<k>>>> : k \in {"o", "x", "y", "z"} \cap SetOf(cols)}
                        \cup {<<"select_columns", <<k>>>> : k \in {"w", "z"} \cap SetOf(cols)}
    [] f = "oo"      -> {<<"order_rows", <<k>>, r, lim>> : k \in {"o", "z", "w"} \cap SetOf(cols), r \in {<<>>}, lim \in {0, 1}}
    \* an ordering with a limit in either direction, right before a window ordered by the same column in either direction
    [] f = "oor"     -> UNION {{<<"order_rows", <<k>>, r, lim>> : r \in {<<>>, <<k>>}, lim \in {0, 1, 2}} : k \in {"o"} \cap SetOf(cols)}
    \* two windows that differ in their partition (none = the whole table / by y) with the same ordering, independent targets
    [] f = "wp"      -> {<<"wextend", <<a>>, p, <<"o">>, <<>>>> : a \in {<<"w", "cumsum", "x", 0>>, <<"v", "_row_number", "", 0>>},
                                                                   p \in {<<>>, <<"y">>}}
                        \cup {<<"wextend", <<a>>, p, <<>>, <<>>>> : a \in {<<"w", "sum", "x", 0>>, <<"v", "_size", "", 0>>},
                                                                     p \in {<<>>, <<"y">>}}
    \* the FIRST table again as a second branch (a later part of the pipeline reads a table an earlier part reads too)
    [] f = "stack1"  -> IF n < 2 THEN {<<"table", "t1">>} ELSE {}
    \* a concat that adds the label column "src"
    [] f = "bsrc"    -> IF n >= 2 THEN {<<"concat", "src">>} ELSE {}
    \* a join whose keys have different names on the two sides (left.o = right.x)
    [] f = "bink"    -> IF n >= 2 /\ "o" \in SetOf(stk[n - 1].cols) /\ "x" \in SetOf(cols)
                          THEN {<<"join", jt, <<<<"o", "x">>>>>> : jt \in {"INNER", "LEFT"}} ELSE {}
    \* one grouped project, a selection that keeps everything, a select_columns that reverses the column order
    [] f = "po1"     -> IF {"o", "x"} \subseteq SetOf(cols) THEN {<<"project", <<<<"w", "sum", "x">>>>, <<"o">>>>} ELSE {}
    [] f = "sr"      -> {<<"select_rows", <<"b", ">=", C(k), K(0)>>>> : k \in {"o"} \cap SetOf(cols)}
    [] f = "corev"   -> IF Len(cols) >= 2 THEN {<<"select_columns", [i \in 1..Len(cols) |-> cols[Len(cols) + 1 - i]]>>} ELSE {}
    [] OTHER -> {}
FocusAll == {"extend", "wextend", "project", "select_rows", "cols", "order", "stack", "binary"}
FamSteps(f, stk) ==
  IF Level = 0 THEN MicroSteps(f, stk) ELSE
  LET n == Len(stk) cols == stk[n].cols IN
  CASE f = "extend"      -> ExtendSteps(cols)
    [] f = "extend2"     -> Extend2Steps(cols)
    [] f = "wextend"     -> WExtendSteps(cols)
    [] f = "project"     -> ProjectSteps(cols)
    [] f = "select_rows" -> SelectRowsSteps(cols)
    [] f = "cols"        -> ColumnSteps(cols)
    [] f = "order"       -> OrderSteps(cols)
    [] f = "stack"       -> IF n < 3 THEN StackSteps ELSE {}
    [] f = "binary"      -> IF n >= 2 THEN BinarySteps(stk[n - 1].cols, cols) ELSE {}
\* with an open second branch, combining it is made likely
Families(stk) == IF SampleK = 0 THEN Focus
                 ELSE IF Len(stk) >= 2 /\ "binary" \in Focus THEN Samp(2, Focus) \cup Samp(1, {"binary", "extend", "cols"} \cap Focus)
                 ELSE Samp(2, Focus)
Candidates(stk) == UNION {FamSteps(f, stk) : f \in Families(stk)}

\* ill-formed variants (C26): each breaks exactly one documented rule on this prefix
BadCandidates(stk) ==
  LET n == Len(stk) cols == stk[n].cols N == KindCols(cols, "n") IN
  {<<"extend", <<<<"z", <<"b", "+", C("nosuch"), K(1)>>>>>>>>}
  \cup {<<"extend", <<<<"z", <<"b", "+", C(c), K(1)>>>>, <<"w", <<"b", "+", C("z"), K(1)>>>>>>>> : c \in N}
  \* the same with the USING assignment listed first, and re-assigning an existing column another assignment reads
  \cup {<<"extend", <<<<"w", <<"b", "+", C("z"), K(1)>>>>, <<"z", <<"b", "+", C(c), K(1)>>>>>>>> : c \in N}
  \cup {<<"extend", <<<<"w", <<"b", "*", C(p[1]), K(2)>>>>, <<p[1], <<"b", "+", C(p[2]), K(1)>>>>>>>> : p \in {q \in Pairs(N) : q[1] # "w"}}
  \cup {<<"project", <<<<"w", "max", p[1]>>, <<p[1], "min", p[2]>>>>, <<>>>> : p \in {q \in Pairs(N) : q[1] # "w"}}
  \cup {<<"wextend", <<<<c, "sum", c, 0>>>>, <<c>>, <<>>, <<>>>> : c \in N}
  \cup {<<"wextend", <<<<c, "cumsum", c, 0>>>>, <<>>, <<c>>, <<>>>> : c \in N}
  \cup {<<"wextend", <<<<"w", "cumsum", c, 0>>>>, <<>>, <<>>, <<>>>> : c \in N}
  \cup {<<"wextend", <<<<"w", "sum", c, 0>>>>, <<>>, <<c>>, <<>>>> : c \in N}
  \cup {<<"wextend", <<<<"w", "sum", c, 0>>>>, <<"nosuch">>, <<>>, <<>>>> : c \in N}
  \cup {<<"project", <<<<"z", "sum", "nosuch">>>>, <<>>>>}
  \cup {<<"project", <<<<c, "sum", c>>>>, <<c>>>> : c \in N}
  \cup {<<"project", <<<<"z", "cumsum", c>>>>, <<>>>> : c \in N}
  \cup {<<"project", <<<<"z", fn, c>>>>, <<>>>> : fn \in BadFns, c \in N}
  \cup {<<"wextend", <<<<"w", fn, c, 0>>>>, <<>>, <<>>, <<>>>> : fn \in {"complex", "argexpr"}, c \in N}
  \* a row-wise assignment FIRST, then a window function that needs an ordering / an aggregate of an expression, in one
  \* extend call without partition_by / order_by
  \cup {<<"mextend", <<<<"z", "nonagg", c, 0>>, <<"w", fn, c, 0>>>>>> : fn \in {"cumsum", "argexpr"}, c \in N}
  \cup {<<"select_rows", <<"b", ">", C("nosuch"), K(1)>>>>}
  \cup {<<"select_columns", <<"nosuch">>>>, <<"drop_columns", <<"nosuch">>>>}
  \* columns an earlier step removed: known to a source, not to this prefix
  \cup {<<"select_columns", <<c>>>> : c \in UNION {SetOf(TabCols[t]) : t \in TabNames} \ SetOf(cols)}
  \cup {<<"drop_columns", <<c>>>> : c \in UNION {SetOf(TabCols[t]) : t \in TabNames} \ SetOf(cols)}
  \cup {<<"extend", <<<<"z", <<"b", "+", C(c), K(1)>>>>>>>> : c \in {x \in UNION {SetOf(TabCols[t]) : t \in TabNames} \ SetOf(cols) : Kind[x] = "n"}}
  \cup {<<"rename", <<<<"x2", "nosuch">>>>>>}
  \cup {<<"rename", <<<<p[1], p[2]>>>>>> : p \in Pairs(SetOf(cols))}
  \cup {<<"order_rows", <<"nosuch">>, <<>>, 0>>}
  \cup (IF n >= 2 THEN {<<"join", "INNER", <<<<"nosuch", "nosuch">>>>>>, <<"join", "CROSS", <<<<cols[1], cols[1]>>>>>>,
                        <<"concat", cols[1]>>, <<"concat", "">>, <<"concat", "src">>}
                       \cup {<<"joinc", jt, <<<<c, c>>>>>> : jt \in {"INNER", "LEFT"}, c \in SetOf(stk[n - 1].cols) \cap SetOf(cols)}
                       \cup {<<"joinc", "INNER", <<>>>>}
                       \cup UNION {UNION {{<<"joinc", "INNER", <<<<c, c>>, <<a, b>>>>>> :
                                               a \in {x \in SetOf(stk[n - 1].cols) \ SetOf(cols) : Kind[x] = Kind[b]}} :
                                             b \in (SetOf(stk[n - 1].cols) \cap SetOf(cols)) \ {c}} :
                                     c \in SetOf(stk[n - 1].cols) \cap SetOf(cols)}
        ELSE {})

\* ------------------------------------------------------------------ the machine
EmptyInputs == [t \in TabNames |-> Tbl(TabCols[t], <<>>)]
Init ==
  /\ phase = "data"
  /\ inp = EmptyInputs
  /\ prog = <<>>
  /\ stack = <<>>
  /\ prev = <<>>
  /\ astack = [b \in Backends |-> <<>>]
  /\ hist = <<>>
  /\ ahist = [b \in Backends |-> <<>>]
  /\ dstack = <<>>
  /\ bstack = <<>>

RowsOf(t) == [SetOf(TabCols[t]) -> UNION {ColVals[c] : c \in SetOf(TabCols[t])}]
AddRow ==
  /\ phase = "data"
  /\ \E t \in TabNames :
       /\ Len(inp[t].rows) < MaxRows
       /\ \E r \in Samp(SampleK, {f \in [SetOf(TabCols[t]) -> UNION {ColVals[c] : c \in SetOf(TabCols[t])}] :
                              \A c \in SetOf(TabCols[t]) : f[c] \in ColVals[c]}) :
            inp' = [inp EXCEPT ![t].rows = Append(@, r)]
  /\ UNCHANGED <<phase, prog, stack, prev, astack, hist, ahist, dstack, bstack>>

StartProg ==
  /\ phase = "data"
  /\ phase' = "prog"
  /\ stack' = <<inp["t1"]>>
  /\ astack' = [b \in Backends |-> <<inp["t1"]>>]
  /\ dstack' = <<DepTable("t1")>>
  /\ bstack' = <<<<"table", "t1">>>>
  /\ UNCHANGED <<inp, prog, prev, hist, ahist>>

Step ==
  /\ phase = "prog"
  /\ Len(prog) < MaxSteps
  /\ \E st \in {s \in Samp(SampleK, Candidates(stack)) : WellFormed(s, stack) /\ Observable(s, stack)} :
       LET ns == Apply(stack, st, {}) IN
       /\ prog' = Append(prog, st)
       /\ stack' = ns
       /\ prev' = stack
       /\ LET nas == [b \in Backends |-> Apply(astack[b], st, DevOf[b])] IN
            /\ astack' = nas
            /\ ahist' = [b \in Backends |-> Append(ahist[b], IF Top(nas[b]) = Top(ns) THEN "same" ELSE Top(nas[b]))]
       /\ hist' = Append(hist, [ok |-> TRUE, top |-> Top(ns), ordered |-> Ordered(st, Top(ns)),
                                conv |-> ConvPoint(st, stack), depth |-> Len(ns),
                                bok |-> BAccepts(bstack, stack, st)])
       /\ dstack' = DepApply(dstack, st)
       /\ bstack' = BApply(bstack, st)
  /\ UNCHANGED <<phase, inp>>

BadStep ==
  /\ GenBad
  /\ phase = "prog"
  /\ Len(prog) < MaxSteps
  /\ \E st \in Samp(SampleK, {s \in BadCandidates(stack) : ~WellFormed(s, stack)}) :
       /\ prog' = Append(prog, st)
       /\ hist' = Append(hist, [ok |-> FALSE, top |-> Top(stack), ordered |-> FALSE, conv |-> FALSE, depth |-> Len(stack),
                                bok |-> BAccepts(bstack, stack, st)])
       /\ ahist' = [b \in Backends |-> Append(ahist[b], "same")]
  /\ UNCHANGED <<phase, inp, stack, prev, astack, dstack, bstack>>

Next == AddRow \/ StartProg \/ Step \/ BadStep
Spec == Init /\ [][Next]_vars

\* ------------------------------------------------------------------ emission (spec -> code)
Case == [inp |-> inp, prog |-> prog, hist |-> hist, alt |-> ahist, kinds |-> Kind,
         used |-> IF Len(dstack) = 0 THEN {} ELSE UsedOf(Top(dstack)),
         dag |-> IF Len(bstack) = 0 THEN <<>> ELSE DagShape(Top(bstack))]
EmitWanted ==
  EmitSel = "all" \/ (Len(stack) = 1 /\ \E i \in 1..Len(prog) : prog[i][1] \in {"dup", "table"})
Emit == (phase = "prog" /\ Len(prog) = MaxSteps /\ EmitWanted /\ (EmitOneIn = 1 \/ RandomElement(1..EmitOneIn) = 1))
          => PrintT("CASE " \o ToJson(Case))

(***************************************************************************)
(* Laws of the reference semantics, checked in every reachable state       *)
(***************************************************************************)
TableOK(t) ==
  /\ NoDup(t.cols)
  /\ \A i \in 1..Len(t.rows) : DOMAIN t.rows[i] = SetOf(t.cols)
\* C08: the value of every open sub-pipeline has exactly its declared columns
DeclaredCols == \A i \in 1..Len(stack) : TableOK(stack[i])
HistOK == Len(hist) = Len(prog)

\* sub-bag: every row of a occurs in b at least as often
CountIn(rows, r) == Cardinality({i \in 1..Len(rows) : rows[i] = r})
SubBagSeq(a, b) == \A i \in 1..Len(a) : CountIn(a, a[i]) <= CountIn(b, a[i])
Reversed(t) == Tbl(t.cols, [i \in 1..Len(t.rows) |-> t.rows[Len(t.rows) + 1 - i]])
JoinLaw(L, R, st, post) ==
  LET jt == st[2] on == st[3]
      M(l, r) == \A p \in 1..Len(on) : KeyMatch(l[on[p][1]], r[on[p][2]], {})
      nmatch == Cardinality({p \in (1..Len(L.rows)) \X (1..Len(R.rows)) : M(L.rows[p[1]], R.rows[p[2]])})
      lonly == Cardinality({i \in 1..Len(L.rows) : \A j \in 1..Len(R.rows) : ~M(L.rows[i], R.rows[j])})
      ronly == Cardinality({j \in 1..Len(R.rows) : \A i \in 1..Len(L.rows) : ~M(L.rows[i], R.rows[j])})
  IN /\ post.cols = AppendNew(L.cols, R.cols)
     /\ Len(post.rows) = nmatch + (IF jt \in {"LEFT", "FULL"} THEN lonly ELSE 0)
                                + (IF jt \in {"RIGHT", "FULL"} THEN ronly ELSE 0)
     \* a row with a NULL key never matches (C16)
     /\ \A i \in 1..Len(L.rows) : (\E p \in 1..Len(on) : L.rows[i][on[p][1]] = NULL)
            => \A j \in 1..Len(R.rows) : ~M(L.rows[i], R.rows[j])
     \* left value wins on shared non-key columns, right fills where left is missing
     /\ (jt = "INNER" /\ Len(L.rows) = 1 /\ Len(R.rows) = 1 /\ nmatch = 1) =>
            \A c \in SetOf(L.cols) \cap SetOf(R.cols) :
               post.rows[1][c] = (IF L.rows[1][c] = NULL THEN R.rows[1][c] ELSE L.rows[1][c])
\* C09 / C16 / C18: what each step does to the table, on the reference
StepLaw ==
  (phase = "prog" /\ Len(prog) > 0 /\ hist[Len(hist)].ok) =>
    LET st == prog[Len(prog)] pre == Top(prev) post == Top(stack) n == Len(prev) IN
    CASE st[1] = "project" ->
           /\ Len(post.rows) = (IF Len(st[3]) = 0 THEN 1
                                ELSE Cardinality({KeyOf(pre.rows[i], st[3]) : i \in 1..Len(pre.rows)}))
           /\ post.cols = AppendNew(st[3], Targets(st[2]))
           /\ TotalOn(post.rows, st[3]) \/ Len(st[3]) = 0
      [] st[1] \in {"extend", "wextend"} ->
           LET keep == Without(pre.cols, Targets(st[2])) IN
           /\ Len(post.rows) = Len(pre.rows)
           /\ post.cols = AppendNew(pre.cols, Targets(st[2]))
           /\ \A i \in 1..Len(pre.rows) : RestrictTo(post.rows[i], keep) = RestrictTo(pre.rows[i], keep)
      [] st[1] = "select_rows" -> SubBagSeq(post.rows, pre.rows) /\ post.cols = pre.cols
      [] st[1] = "select_columns" -> post.cols = st[2] /\ Len(post.rows) = Len(pre.rows)
      [] st[1] = "order_rows" ->
           /\ IsSortedBy(post.rows, st[2], st[3])
           /\ Len(post.rows) = (IF st[4] = 0 \/ st[4] > Len(pre.rows) THEN Len(pre.rows) ELSE IF st[4] < 0 THEN 0 ELSE st[4])
           /\ SubBagSeq(post.rows, pre.rows)
           /\ post.cols = pre.cols
      [] st[1] = "join" -> JoinLaw(prev[n - 1], pre, st, post)
      [] st[1] = "concat" -> Len(post.rows) = Len(prev[n - 1].rows) + Len(pre.rows)
      [] OTHER -> TRUE
\* C19: once the pipeline is being written and evaluated, no step changes the caller's tables
InputsFrozen == [][phase = "prog" => inp' = inp]_vars

\* C10: an input column outside the reference `Used` set cannot influence the result
Perturb(I, t, c, v) == [I EXCEPT ![t].rows = [i \in 1..Len(I[t].rows) |-> [I[t].rows[i] EXCEPT ![c] = v]]]
RECURSIVE RunProg(_, _, _)
RunProg(stk, i, I) ==
  IF i > Len(prog) THEN stk
  ELSE RunProg(IF hist[i].ok THEN ApplyI(stk, prog[i], {}, I) ELSE stk, i + 1, I)
EvalProg(I) == RunProg(<<I["t1"]>>, 1, I)
Irrelevance ==
  (phase = "prog" /\ Len(prog) > 0) =>
    \A t \in TabNames : \A c \in SetOf(TabCols[t]) :
      (<<t, c>> \notin UsedOf(Top(dstack))) =>
         \A v \in ColVals[c] : BagEq(Top(EvalProg(Perturb(inp, t, c, v))), Top(stack))
\* narrowing every input to the used columns leaves the result unchanged (second sentence of C10) is
\* the same statement for tables-as-functions: a narrowed row is a row whose other cells are never read.

\* C06: the DAG the builder holds means what the sequence of steps means
BuilderMeaning ==
  (phase = "prog") => \A i \in 1..Len(bstack) : BagEq(EvalDag(bstack[i], inp), stack[i])
\* C06 / C26: the builder accepts exactly the steps the documented rules accept, also after
\* prefixes it has simplified
BuilderAcceptance == \A i \in 1..Len(hist) : hist[i].bok = hist[i].ok

\* C18: the result does not depend on the order of the rows it is computed from
PermLaw ==
  (phase = "prog" /\ Len(prog) > 0 /\ hist[Len(hist)].ok /\ prog[Len(prog)][1] \notin {"table", "dup"}) =>
    LET st == prog[Len(prog)]
        rstk == [i \in 1..Len(prev) |-> Reversed(prev[i])]
    IN BagEq(Top(Apply(rstk, st, {})), Top(stack))
=============================================================================
