------------------------------- MODULE ConnComp -------------------------------
(***************************************************************************)
(* C23: connected_components labels each edge by its component's least      *)
(* vertex.                                                                  *)
(* (A) reference: label(i) = least vertex reachable from f[i] through the   *)
(*     undirected edges (f[j], g[j]).                                       *)
(* (B) the algorithm as coded (connected_components.py): one Component      *)
(*     object per vertex, merged edge by edge - the smaller component is    *)
(*     the donor, the merged id is the minimum of the two ids.  One action  *)
(*     per loop iteration; the loop invariant is checked in every state.    *)
(***************************************************************************)
EXTENDS Integers, Sequences, FiniteSets, TLC, Json, FiniteSetsExt

CONSTANTS V,          \* ordered vertex universe (integers)
          MaxEdges

VARIABLES f, g,       \* the edge lists
          phase,      \* "build": the caller is still writing the lists; "run": the function executes
          i,          \* next edge to process
          obj,        \* vertex -> component object (objects are named by the vertex they were created for)
          oid,        \* object -> id
          oitems      \* object -> set of vertices
vars == <<f, g, phase, i, obj, oid, oitems>>

Init == /\ f = <<>> /\ g = <<>> /\ phase = "build"
        /\ i = 1
        /\ obj = [v \in V |-> v] /\ oid = [v \in V |-> v] /\ oitems = [v \in V |-> {v}]
AddEdge == /\ phase = "build" /\ Len(f) < MaxEdges
           /\ \E a \in V, b \in V : f' = Append(f, a) /\ g' = Append(g, b)
           /\ UNCHANGED <<phase, i, obj, oid, oitems>>
Start == /\ phase = "build" /\ phase' = "run" /\ UNCHANGED <<f, g, i, obj, oid, oitems>>

ProcessEdge ==
  /\ phase = "run"
  /\ i <= Len(f)
  /\ i' = i + 1
  /\ LET cf == obj[f[i]] cg == obj[g[i]] IN
     IF oid[cf] # oid[cg]
       THEN LET merged == IF Cardinality(oitems[cf]) >= Cardinality(oitems[cg]) THEN cf ELSE cg
                donor  == IF merged = cf THEN cg ELSE cf
            IN /\ oitems' = [oitems EXCEPT ![merged] = oitems[merged] \cup oitems[donor]]
               /\ oid' = [oid EXCEPT ![merged] = Min({oid[merged], oid[donor]})]
               /\ obj' = [v \in V |-> IF v \in oitems[donor] THEN merged ELSE obj[v]]
       ELSE UNCHANGED <<obj, oid, oitems>>
  /\ UNCHANGED <<f, g, phase>>
Next == AddEdge \/ Start \/ ProcessEdge
Spec == Init /\ [][Next]_vars

\* ---------------------------------------------------------------- reference
Used == {f[j] : j \in 1..Len(f)} \cup {g[j] : j \in 1..Len(g)}
Adj(n, v) == {v} \cup {g[j] : j \in {k \in 1..n : f[k] = v}} \cup {f[j] : j \in {k \in 1..n : g[k] = v}}
RECURSIVE Close(_, _)
Close(n, S) == LET T == UNION {Adj(n, v) : v \in S} IN IF T = S THEN S ELSE Close(n, T)
CompOf(n, v) == Close(n, {v})              \* component of v using the first n edges
RefLabel(j) == Min(CompOf(Len(f), f[j]))
Labels == [j \in 1..Len(f) |-> oid[obj[f[j]]]]

\* ---------------------------------------------------------------- invariants
Live == {obj[v] : v \in V}
\* the live objects partition the vertices, and obj[v] holds v
Partition ==
  /\ \A v \in V : v \in oitems[obj[v]]
  /\ \A a, b \in Live : a # b => oitems[a] \cap oitems[b] = {}
\* loop invariant: after processing n = i - 1 edges every object is exactly one component of those
\* edges and its id is the component's least vertex
LoopInvariant ==
  (phase = "run") => \A v \in V : oitems[obj[v]] = CompOf(i - 1, v) /\ oid[obj[v]] = Min(CompOf(i - 1, v))
\* C23 at the end: edge j is labelled with the least vertex of its component; equal labels iff same component
Final ==
  (phase = "run" /\ i = Len(f) + 1) =>
     /\ \A j \in 1..Len(f) : Labels[j] = RefLabel(j)
     /\ \A j, k \in 1..Len(f) : (Labels[j] = Labels[k]) <=> (CompOf(Len(f), f[j]) = CompOf(Len(f), f[k]))
     /\ \A j \in 1..Len(f) : oid[obj[g[j]]] = Labels[j]

Emit == (phase = "run" /\ i = Len(f) + 1) => PrintT("CASE " \o ToJson([f |-> f, g |-> g, labels |-> [j \in 1..Len(f) |-> RefLabel(j)]]))
=============================================================================
