------------------------------- MODULE Records -------------------------------
(***************************************************************************)
(* C17: record transforms (cdata) are invertible and compose.              *)
(*                                                                          *)
(* A record specification is a control table: per control row a tuple of    *)
(* control-key values and a tuple of CELL NAMES (the names the values have  *)
(* in row-record form), plus the record key columns.  A record in           *)
(* row-record form is one row: record key + one value per cell name; in     *)
(* block form it is one row per control row: record key, control keys,      *)
(* one value per value column.  Strict specifications have distinct key     *)
(* tuples and distinct cell names (so the two forms carry the same          *)
(* information).                                                             *)
(***************************************************************************)
EXTENDS Integers, Sequences, FiniteSets, TLC, Json

CONSTANTS MaxRecs, Vals

VARIABLES nk, nr, nv, nrk, recs
vars == <<nk, nr, nv, nrk, recs>>

KeyVal(i) == CASE i = 1 -> "a" [] i = 2 -> "b" [] i = 3 -> "c"
CellName(i) == CASE i = 1 -> "c1" [] i = 2 -> "c2" [] i = 3 -> "c3" [] i = 4 -> "c4" [] i = 5 -> "c5" [] i = 6 -> "c6"
\* control table: row i has keys <<KeyVal(i)>> (and <<KeyVal(i), KeyVal(nr + 1 - i)>> with two key columns) and cells row-major
Ctrl == [keys  |-> [i \in 1..nr |-> IF nk = 1 THEN <<KeyVal(i)>> ELSE <<KeyVal(i), KeyVal(nr + 1 - i)>>],
         cells |-> [i \in 1..nr |-> [j \in 1..nv |-> CellName((i - 1) * nv + j)]]]
Cells == {CellName(i) : i \in 1..(nr * nv)}
\* the same cells laid out "tall": one value column, one control row per cell
Tall == [keys  |-> [i \in 1..(nr * nv) |-> <<CellName(i)>>],
         cells |-> [i \in 1..(nr * nv) |-> <<CellName(i)>>]]

RowsToBlocks(ct, rs) ==
  LET n == Len(ct.keys) IN
  [q \in 1..(Len(rs) * n) |->
     LET r == rs[((q - 1) \div n) + 1]  i == ((q - 1) % n) + 1 IN
     [rk |-> r.rk, ck |-> ct.keys[i], v |-> [j \in 1..Len(ct.cells[i]) |-> r.vals[ct.cells[i][j]]]]]
\* blocks -> row records: records in order of first appearance of their key; rows of a block in any order
FirstIdx(sq) == {i \in 1..Len(sq) : \A j \in 1..(i - 1) : sq[j].rk # sq[i].rk}
RECURSIVE SortedSeq(_)
SortedSeq(S) == IF S = {} THEN <<>> ELSE LET m == CHOOSE x \in S : \A y \in S : x <= y IN <<m>> \o SortedSeq(S \ {m})
BlocksToRows(ct, bs) ==
  LET firsts == SortedSeq(FirstIdx(bs))
      Cell(rk, name) ==
        LET i == CHOOSE i \in 1..Len(ct.cells) : \E j \in 1..Len(ct.cells[i]) : ct.cells[i][j] = name
            j == CHOOSE j \in 1..Len(ct.cells[i]) : ct.cells[i][j] = name
            b == CHOOSE b \in 1..Len(bs) : bs[b].rk = rk /\ bs[b].ck = ct.keys[i]
        IN bs[b].v[j]
      names == UNION {{ct.cells[i][j] : j \in 1..Len(ct.cells[i])} : i \in 1..Len(ct.cells)}
  IN [q \in 1..Len(firsts) |-> [rk |-> bs[firsts[q]].rk, vals |-> [c \in names |-> Cell(bs[firsts[q]].rk, c)]]]
Reverse(sq) == [i \in 1..Len(sq) |-> sq[Len(sq) + 1 - i]]

\* nrk = 0: no record keys - the whole table is ONE record
Init == /\ nk \in {1, 2} /\ nr \in {1, 2, 3} /\ nv \in {1, 2} /\ nrk \in {0, 1, 2} /\ recs = <<>>
AddRecord ==
  /\ Len(recs) < MaxRecs
  /\ (nrk = 0 => Len(recs) = 0)
  /\ \E vals \in [Cells -> Vals] :
       recs' = Append(recs, [rk |-> IF nrk = 0 THEN <<>> ELSE IF nrk = 1 THEN <<Len(recs) + 1>> ELSE <<Len(recs) + 1, 7>>,
                            vals |-> vals])
  /\ UNCHANGED <<nk, nr, nv, nrk>>
Spec == Init /\ [][AddRecord]_vars

Blocks == RowsToBlocks(Ctrl, recs)
\* transforming to the other form and back returns the original table
InverseLaw == /\ BlocksToRows(Ctrl, Blocks) = recs
              /\ BlocksToRows(Ctrl, Reverse(Blocks)) = Reverse(recs)
              /\ RowsToBlocks(Ctrl, BlocksToRows(Ctrl, Blocks)) = Blocks
\* the composite block -> block map equals applying the two maps one after the other
ComposeLaw == /\ BlocksToRows(Tall, RowsToBlocks(Tall, BlocksToRows(Ctrl, Blocks))) = recs
              /\ Len(RowsToBlocks(Tall, recs)) = Len(recs) * nr * nv
ShapeLaw == Len(Blocks) = Len(recs) * nr /\ \A q \in 1..Len(Blocks) : Len(Blocks[q].v) = nv

Case == [nk |-> nk, nrk |-> nrk, ctrl |-> Ctrl, tall |-> Tall, recs |-> [i \in 1..Len(recs) |-> [rk |-> recs[i].rk, vals |-> recs[i].vals]],
         blocks |-> Blocks, tallblocks |-> RowsToBlocks(Tall, recs)]
Emit == (Len(recs) = MaxRecs \/ (nrk = 0 /\ Len(recs) = 1)) => PrintT("CASE " \o ToJson(Case))
=============================================================================
