------------------------------ MODULE SqlMerge ------------------------------
(***************************************************************************)
(* SQL-level extend merging (sql_model.SQLModel.extend_to_near_sql, the     *)
(* allow_extend_merges branch): an extend step E over a sub-query S that is *)
(* itself a SELECT list is folded INTO S when no "contention" is found.     *)
(*                                                                          *)
(* A SELECT list is a function from column name to a term; a term is either *)
(* PASS (the column is passed through unchanged) or [id, reads]: an         *)
(* uninterpreted expression `id` of the columns in `reads` (for a windowed  *)
(* term `reads` includes the PARTITION BY / ORDER BY columns).  Meanings are *)
(* SYMBOLIC terms over the source row, so equality of meanings is exact for  *)
(* every interpretation of the expressions and no data is needed.           *)
(*                                                                          *)
(* (B) MergeAllowed transcribes the code's contention rule over DECLARED     *)
(* dependencies; Dev "window_deps_undeclared" models declared dependencies   *)
(* that omit window columns (what two seeded changes did).                   *)
(* Soundness (checked by TLC for all pairs of SELECT lists over 3 columns): *)
(*   MergeAllowed(S, E) => Meaning(Merged(S, E)) = Meaning(E after S)        *)
(* Trace level (Trace_SqlMerge): every merge decision recorded from the      *)
(* real generator, with the columns each term's SQL text really mentions,    *)
(* must have sound declared dependencies and be a sound merge.               *)
(***************************************************************************)
EXTENDS Integers, FiniteSets, TLC

CONSTANTS Cols, PASS, Dev
Terms == {PASS} \cup {[id |-> i, reads |-> r, win |-> w] : i \in {"f", "g"}, r \in SUBSET Cols, w \in SUBSET Cols}
\* what a term really depends on: the columns its expression reads plus its window columns
TrueDeps(t, c) == IF t = PASS THEN {c} ELSE t.reads \cup t.win
\* what the generator DECLARES (declared_term_dependencies)
Declared(t, c) == IF t = PASS THEN {c}
                  ELSE IF "window_deps_undeclared" \in Dev THEN t.reads ELSE t.reads \cup t.win
\* symbolic meaning of a SELECT list L applied to a row whose cell c has symbolic value row[c]
Val(t, c, row) == IF t = PASS THEN row[c] ELSE <<t.id, [d \in t.reads \cup t.win |-> row[d]]>>
Apply(L, row) == [c \in Cols |-> Val(L[c], c, row)]
Source == [c \in Cols |-> <<"src", c>>]
Sequential(S, E) == Apply(E, Apply(S, Source))
\* the code: non-trivial terms, their needs, contention
NonTrivial(L) == {c \in Cols : L[c] # PASS}
Needs(L) == UNION {Declared(L[c], c) : c \in NonTrivial(L)}
Contention(S, E) == (NonTrivial(E) \cap NonTrivial(S)) \cup (NonTrivial(E) \cap Needs(S)) \cup (NonTrivial(S) \cap Needs(E))
MergeAllowed(S, E) == Contention(S, E) = {}
Merged(S, E) == [c \in Cols |-> IF c \in NonTrivial(E) THEN E[c] ELSE S[c]]

VARIABLES S, E
Init == S \in [Cols -> Terms] /\ E \in [Cols -> Terms]
Next == UNCHANGED <<S, E>>
Spec == Init /\ [][Next]_<<S, E>>
MergeSound == MergeAllowed(S, E) => Apply(Merged(S, E), Source) = Sequential(S, E)
\* the rule is not vacuous: it does allow merges
=============================================================================
