--------------------------- MODULE Trace_SqlMerge ---------------------------
(***************************************************************************)
(* Code -> spec for SQL extend merging: every merge decision recorded by    *)
(* the guarded hook in SQLModel.extend_to_near_sql is judged with the       *)
(* operators of SqlMerge.tla.  An event holds both SELECT lists (`sub` = the *)
(* sub-query S, `our` = the extend E); per column: pass (passed through),   *)
(* declared (declared_term_dependencies), text (the columns the generated   *)
(* SQL text of the term really mentions, window clause included).           *)
(*   DeclaredCoversText  every term declares all columns its text mentions  *)
(*   MergeSoundHere      if the generator merged, the merged SELECT list    *)
(*                       means what E after S means (symbolically, with the  *)
(*                       TEXTUAL dependencies)                               *)
(*   RuleAsModelled      the decision equals the contention rule of          *)
(*                       SqlMerge.tla on the declared dependencies           *)
(*                       (reported as model drift, not as a violation)       *)
(***************************************************************************)
EXTENDS Integers, Sequences, FiniteSets, TLC, Json, IOUtils

Events == JsonDeserialize(IOEnv.TRACE_FILE)
VARIABLES tid, verdict
SetOf(q) == {q[i] : i \in 1..Len(q)}
PASS == "PASS"
ColsOf(ev) == {ev.sub[i].c : i \in 1..Len(ev.sub)} \cup {ev.our[i].c : i \in 1..Len(ev.our)}
                \cup UNION {SetOf(ev.sub[i].text) \cup SetOf(ev.sub[i].declared) : i \in 1..Len(ev.sub)}
                \cup UNION {SetOf(ev.our[i].text) \cup SetOf(ev.our[i].declared) : i \in 1..Len(ev.our)}
\* a SELECT list as a function over all columns in sight; columns it does not list are passed through
Entry(side, c) == IF \E i \in 1..Len(side) : side[i].c = c THEN side[CHOOSE i \in 1..Len(side) : side[i].c = c] ELSE [c |-> c, pass |-> TRUE, declared |-> <<c>>, text |-> <<>>]
IsPass(side, c) == Entry(side, c).pass
Text(side, c) == IF IsPass(side, c) THEN {c} ELSE SetOf(Entry(side, c).text)
Decl(side, c) == IF IsPass(side, c) THEN {c} ELSE SetOf(Entry(side, c).declared)
Val(side, tag, c, row) == IF IsPass(side, c) THEN row[c] ELSE <<tag, c, [d \in Text(side, c) |-> row[d]]>>
ApplyL(side, tag, cols, row) == [c \in cols |-> Val(side, tag, c, row)]
NonTrivial(side, cols) == {c \in cols : ~IsPass(side, c)}
Needs(side, cols) == UNION {Decl(side, c) : c \in NonTrivial(side, cols)}
Judge(ev) ==
  LET cols == ColsOf(ev)
      src == [c \in cols |-> <<"src", c>>]
      seqv == ApplyL(ev.our, "E", cols, ApplyL(ev.sub, "S", cols, src))
      mrg == [c \in cols |-> IF ~IsPass(ev.our, c) THEN Val(ev.our, "E", c, src) ELSE Val(ev.sub, "S", c, src)]
      out == {ev.our[i].c : i \in 1..Len(ev.our)}          \* the columns this step hands on
      contention == (NonTrivial(ev.our, cols) \cap NonTrivial(ev.sub, cols)) \cup (NonTrivial(ev.our, cols) \cap Needs(ev.sub, cols))
                    \cup (NonTrivial(ev.sub, cols) \cap Needs(ev.our, cols))
  IN IF \E c \in cols : ~(Text(ev.our, c) \subseteq Decl(ev.our, c)) \/ ~(Text(ev.sub, c) \subseteq Decl(ev.sub, c))
       THEN "REJ DeclaredCoversText"
     ELSE IF ev.sqlmerge /\ \E c \in out : mrg[c] # seqv[c] THEN "REJ MergeSoundHere"
     ELSE IF ev.sqlmerge # (contention = {}) THEN "DRIFT RuleAsModelled"
     ELSE "ACC"
TInit == tid \in 1..Len(Events) /\ verdict = "run"
TStep == /\ verdict = "run" /\ verdict' = Judge(Events[tid])
         /\ PrintT(Judge(Events[tid]) \o " " \o ToString(tid))
         /\ UNCHANGED tid
TSpec == TInit /\ [][TStep]_<<tid, verdict>>
=============================================================================
