---------------------------- MODULE Trace_SqlLex ----------------------------
(***************************************************************************)
(* Lexes REAL output of the SQL generator with the automaton of SqlLex.tla. *)
(* The trace file holds a JSON list of records                              *)
(*   [d |-> dialect, a |-> text with harmless user strings (codes),         *)
(*    b |-> the same statement with the strings under test,                 *)
(*    strs |-> values that must be read back as string literals from b,     *)
(*    ids  |-> values that must be read back as quoted identifiers from b]  *)
(* One character per step.  A record is accepted when both texts are        *)
(* well-formed, have the SAME shape (user text cannot change the structure  *)
(* of the statement) and b carries every expected value verbatim.           *)
(***************************************************************************)
EXTENDS Integers, Sequences, FiniteSets, TLC, Json, IOUtils

VARIABLE s
INSTANCE SqlLex WITH Dev <- {}, Alphabet <- {}, MaxLen <- 0

Traces == JsonDeserialize(IOEnv.TRACE_FILE)
VARIABLES tid, ph, pos, L, shapeA, verdict
tvars == <<tid, ph, pos, L, shapeA, verdict, s>>

TInit == /\ tid \in 1..Len(Traces) /\ ph = "a" /\ pos = 1 /\ L = L0 /\ shapeA = <<>> /\ verdict = "run" /\ s = <<>>
Text == IF ph = "a" THEN Traces[tid].a ELSE Traces[tid].b
InSeq(v, q) == \E i \in 1..Len(q) : q[i] = v
Judge(LA, LB) ==
  IF LA.bad THEN "REJ malformed-baseline"
  ELSE IF LB.bad THEN "REJ malformed"
  ELSE IF LA.kinds # LB.kinds THEN "REJ shape"
  ELSE IF \E i \in 1..Len(Traces[tid].strs) : ~InSeq(Traces[tid].strs[i], LB.strs) THEN "REJ string-value"
  ELSE IF \E i \in 1..Len(Traces[tid].ids) : ~InSeq(Traces[tid].ids[i], LB.ids) THEN "REJ identifier-value"
  ELSE "ACC"
TStep ==
  /\ verdict = "run"
  /\ IF pos <= Len(Text)
       THEN /\ L' = LexStep(Traces[tid].d, L, Text[pos]) /\ pos' = pos + 1
            /\ UNCHANGED <<ph, shapeA, verdict>>
       ELSE LET F == Finish(Traces[tid].d, L) IN
            IF ph = "a"
              THEN /\ shapeA' = F /\ ph' = "b" /\ pos' = 1 /\ L' = L0 /\ UNCHANGED verdict
              ELSE /\ verdict' = Judge(shapeA, F)
                   /\ PrintT(Judge(shapeA, F) \o " " \o ToString(tid))
                   /\ UNCHANGED <<ph, pos, L, shapeA>>
  /\ UNCHANGED <<tid, s>>
TSpec == TInit /\ [][TStep]_tvars
=============================================================================
