---- MODULE MC_Solutions ----
EXTENDS Solutions
MC_G == {0, 1}
MC_O == {1, 2, 3}
MC_V == {NULL, 1, 2}
MC_M == {0, 1, 2}
MC_Mapping == [x \in {0, 1} |-> IF x = 0 THEN 5 ELSE 7]
MC_G1 == {0}
====
