------------------------------ MODULE EvalCache ------------------------------
(***************************************************************************)
(* C25: the evaluation result cache is transparent.                         *)
(* A key is (dialect, SQL text, data map); data maps are drawn from a pool  *)
(* of near-duplicates.  Pool members are abstract ids; SameData(a, b) says   *)
(* when two pool members denote EQUAL data tables under the same names      *)
(* (the harness materialises each id as concrete frames and builds the      *)
(* relation the same way: a copy is equal, a changed value / column name /  *)
(* shape / row order / table name is not).                                  *)
(* Results are abstract values; a lookup returns a COPY: mutating what was  *)
(* returned (or what was passed to store) never changes the cache.          *)
(***************************************************************************)
EXTENDS Integers, Sequences, FiniteSets, TLC, Json

CONSTANTS Dialects, Sqls, Pool, Results, MaxOps, NONE,
          Class        \* pool member -> equivalence class of "equal data tables"

VARIABLES cache,      \* <<dialect, sql, class>> -> result or NONE
          held,       \* result frames handed out to / kept by the caller: seq of [val, from]
          nops, hist
vars == <<cache, held, nops, hist>>

KeysAll == Dialects \X Sqls \X {Class[m] : m \in Pool}
Init == cache = [k \in KeysAll |-> NONE] /\ held = <<>> /\ nops = 0 /\ hist = <<>>
KeyOf(d, q, m) == <<d, q, Class[m]>>
Log(e) == hist' = Append(hist, e) /\ nops' = nops + 1

Store(d, q, m, r) ==
  /\ nops < MaxOps
  /\ cache' = [cache EXCEPT ![KeyOf(d, q, m)] = r]
  /\ held' = Append(held, r)              \* the caller still owns the frame it passed in
  /\ Log([op |-> "store", d |-> d, q |-> q, m |-> m, r |-> r, hit |-> TRUE, ret |-> NONE])
Get(d, q, m) ==
  /\ nops < MaxOps
  /\ UNCHANGED cache
  /\ LET v == cache[KeyOf(d, q, m)] IN
     /\ held' = IF v = NONE THEN held ELSE Append(held, v)
     /\ Log([op |-> "get", d |-> d, q |-> q, m |-> m, r |-> NONE, hit |-> v # NONE, ret |-> v])
\* the caller scribbles over a frame it holds (one it stored, or one a lookup returned)
Mutate(i) ==
  /\ nops < MaxOps /\ i \in 1..Len(held)
  /\ UNCHANGED cache
  /\ held' = [held EXCEPT ![i] = "scribbled"]
  /\ Log([op |-> "mutate", d |-> NONE, q |-> NONE, m |-> NONE, r |-> i, hit |-> TRUE, ret |-> NONE])
Next ==
  \/ \E d \in Dialects, q \in Sqls, m \in Pool, r \in Results : Store(d, q, m, r)
  \/ \E d \in Dialects, q \in Sqls, m \in Pool : Get(d, q, m)
  \/ \E i \in 1..2 : Mutate(i)
Spec == Init /\ [][Next]_vars

\* a lookup succeeds only for a key built from the same dialect, SQL text and equal data tables as a stored entry
Last == hist[Len(hist)]
StoredBefore(d, q, m) == \E j \in 1..(Len(hist) - 1) :
   hist[j].op = "store" /\ hist[j].d = d /\ hist[j].q = q /\ Class[hist[j].m] = Class[m]
LastStoreBefore(d, q, m) ==
   LET J == {j \in 1..(Len(hist) - 1) : hist[j].op = "store" /\ hist[j].d = d /\ hist[j].q = q /\ Class[hist[j].m] = Class[m]}
   IN hist[CHOOSE j \in J : \A k \in J : k <= j].r
HitOnlyIfStored == (Len(hist) > 0 /\ Last.op = "get") => (Last.hit <=> StoredBefore(Last.d, Last.q, Last.m))
ReturnsStored == (Len(hist) > 0 /\ Last.op = "get" /\ Last.hit) => Last.ret = LastStoreBefore(Last.d, Last.q, Last.m)
\* mutation of caller-held frames never reaches the cache (cache is UNCHANGED by Mutate by construction;
\* checked on the implementation by the replay)
Emit == (nops = MaxOps) => PrintT("CASE " \o ToJson([hist |-> hist]))
=============================================================================
