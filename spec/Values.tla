------------------------------- MODULE Values -------------------------------
(***************************************************************************)
(* (A) reference semantics: scalar values of the data_algebra expression    *)
(* language.                                                                *)
(*                                                                          *)
(* One missing value NULL (a TLC model value: `NULL + 1` is a TLC error,    *)
(* `NULL = 1` is FALSE).  The properties say null and NaN are treated alike *)
(* so NaN is not a separate value.  Booleans are carried as 1/0 (SQLite has *)
(* no boolean type and the harness folds True/False to 1/0), SQL's third    *)
(* truth value is NULL.  All other scalars are small integers; text values  *)
(* are abstract integers rendered as "s<i>" by the harness.                 *)
(*                                                                          *)
(* Reference decisions (README: "the data semantics are designed to be      *)
(* close to the SQL realizations"): arithmetic or comparison with a NULL    *)
(* operand is NULL, and/or are Kleene connectives.  Docstrings override:    *)
(*   maximum/minimum propagate missing, fmax/fmin ignore it,                *)
(*   if_else(NULL, a, b) = NULL, where(NULL, a, b) = b,                     *)
(*   coalesce picks the first non-missing.                                  *)
(* `dev` is the set of NAMED DEVIATIONS under which a value is computed:    *)
(* what a backend is known to do instead of the reference (DESIGN.md 6).    *)
(***************************************************************************)
EXTENDS Integers, Sequences, FiniteSets, TLC
CONSTANTS NULL,
          PINF, NINF      \* model values for +infinity / -infinity (only is_null, is_bad, coalesce, negation, abs, sign see them)

IsNull(v) == v = NULL
IsInf(v) == v = PINF \/ v = NINF
B(b) == IF b THEN 1 ELSE 0

ArithOps == {"+", "-", "*", "/", "//", "%", "**", "mod", "remainder"}
\* transcendental methods are UNINTERPRETED: the spec fixes null propagation and the domain, the value is
\* <<"uf", name, x>> and is realised by the harness with Python's math module (C05)
UFNames == {"exp", "log", "log10", "sqrt", "sin", "cos", "sinh", "cosh", "tanh", "arctan", "expm1", "log1p"}
UFDom(op, x) == CASE op \in {"log", "log10"} -> x > 0 [] op = "sqrt" -> x >= 0 [] op = "log1p" -> x > 0 - 1 [] OTHER -> TRUE
RECURSIVE IPowV(_, _)
IPowV(a, n) == IF n = 0 THEN 1 ELSE a * IPowV(a, n - 1)
Gcd(a, b) == LET RECURSIVE G(_, _) G(p, q) == IF q = 0 THEN p ELSE G(q, p % q) IN G(IF a < 0 THEN 0 - a ELSE a, IF b < 0 THEN 0 - b ELSE b)
\* exact quotient: ALWAYS the normalised fraction <<"q", num, den>> with den > 0 (den = 1 for whole numbers), so that
\* all cells of a column of quotients / means have one shape (TLC cannot compare an integer with a tuple)
Quot(x, y) == LET s == IF y < 0 THEN 0 - 1 ELSE 1  n == s * x  d == s * y  g == Gcd(n, d)
              IN <<"q", n \div g, d \div g>>
CmpOps   == {"==", "!=", "<", "<=", ">", ">="}
LogicOps == {"and", "or"}
PickOps  == {"maximum", "minimum", "fmax", "fmin", "coalesce"}

\* deviations sqlite_mod_truncates / pg_mod_truncates: SQL % and MOD() truncate (the result takes the sign of the dividend);
\* numpy's mod / remainder / % are floor-mod.  SQLiteModel writes all three spellings as %, PostgreSQLModel writes % and
\* mod as MOD() and remainder with FLOOR (right)
TruncMod(op, dev) == \/ ("sqlite_mod_truncates" \in dev /\ op \in {"%", "mod", "remainder"})
                     \/ ("pg_mod_truncates" \in dev /\ op \in {"%", "mod"})
Arith(op, x, y, dev) ==
  IF IsNull(x) \/ IsNull(y) THEN NULL
  ELSE CASE op = "+" -> x + y
         [] op = "-" -> x - y
         [] op = "*" -> x * y
         [] op = "/" -> Quot(x, y)
         [] op = "//" -> x \div y
         [] op \in {"%", "mod", "remainder"} -> IF x < 0 /\ TruncMod(op, dev) THEN 0 - ((0 - x) % y) ELSE x % y
         [] op = "**" -> IPowV(x, y)

\* D14 (null_cmp_false): Pandas/Polars comparisons with a missing operand are False (True for !=)
Cmp(op, x, y, dev) ==
  IF IsNull(x) \/ IsNull(y)
    THEN IF "null_cmp_false" \in dev THEN (IF op = "!=" THEN 1 ELSE 0) ELSE NULL
    ELSE B(CASE op = "==" -> x = y
             [] op = "!=" -> x # y
             [] op = "<"  -> x < y
             [] op = "<=" -> x <= y
             [] op = ">"  -> x > y
             [] op = ">=" -> x >= y)

And3(a, b) == IF a = 0 \/ b = 0 THEN 0 ELSE IF IsNull(a) \/ IsNull(b) THEN NULL ELSE 1
Or3(a, b)  == IF a = 1 \/ b = 1 THEN 1 ELSE IF IsNull(a) \/ IsNull(b) THEN NULL ELSE 0
Not3(a)    == IF IsNull(a) THEN NULL ELSE 1 - a
Logic(op, a, b) == IF op = "and" THEN And3(a, b) ELSE Or3(a, b)

Max2(x, y) == IF x >= y THEN x ELSE y
Min2(x, y) == IF x <= y THEN x ELSE y
\* docstrings: maximum/minimum "propagate missing", fmax/fmin "ignore missing"
\* D18 (sql_maxmin_swapped): the SQL formatters give maximum/minimum the fmax/fmin null behaviour
\*                           and vice versa; (polars_maxmin_ignore_null): Polars ignores nulls in all four.
Pick(op, x, y, dev) ==
  LET strict == IF "sql_maxmin_swapped" \in dev THEN op \in {"fmax", "fmin"}
                ELSE IF "polars_maxmin_ignore_null" \in dev THEN FALSE
                ELSE op \in {"maximum", "minimum"}
      isMax == op \in {"maximum", "fmax"}
  IN IF op = "coalesce" THEN (IF IsNull(x) THEN y ELSE x)
     ELSE IF IsNull(x) /\ IsNull(y) THEN NULL
     ELSE IF IsNull(x) \/ IsNull(y)
            THEN IF strict THEN NULL ELSE (IF IsNull(x) THEN y ELSE x)
            ELSE IF isMax THEN Max2(x, y) ELSE Min2(x, y)

Unary(op, x) ==
  IF IsInf(x) THEN (CASE op = "is_null" -> 0 [] op = "is_bad" -> 1 [] op = "coalesce_0" -> x
                      [] op = "neg" -> (IF x = PINF THEN NINF ELSE PINF) [] op = "abs" -> PINF
                      [] op = "sign" -> (IF x = PINF THEN 1 ELSE 0 - 1)) ELSE
  CASE op = "is_null" -> B(IsNull(x))
    [] op = "is_bad"  -> B(IsNull(x))
    [] op = "not"     -> Not3(x)
    [] op = "neg"     -> IF IsNull(x) THEN NULL ELSE 0 - x
    [] op = "abs"     -> IF IsNull(x) THEN NULL ELSE (IF x < 0 THEN 0 - x ELSE x)
    [] op = "sign"    -> IF IsNull(x) THEN NULL ELSE (IF x < 0 THEN 0 - 1 ELSE IF x > 0 THEN 1 ELSE 0)
    [] op \in {"floor", "ceil", "round"} -> x            \* on whole numbers (the fractional cases are C05's float columns)
    [] op = "coalesce_0" -> IF IsNull(x) THEN 0 ELSE x
    [] op \in UFNames -> IF IsNull(x) THEN NULL ELSE <<"uf", op, x>>

\* methods over an exact fraction q = <<"q", n, d>> (d > 0); expression tag "uq": the argument is syntactically a "/".
\* round is numpy's (half to even); deviation sql_round_half_away: SQL ROUND rounds halves away from zero
QUnary(op, q, dev) ==
  IF IsNull(q) THEN NULL ELSE
  LET n == q[2] d == q[3] f == n \div d r2 == 2 * (n - f * d) IN
  CASE op = "floor" -> f
    [] op = "ceil" -> 0 - ((0 - n) \div d)
    [] op = "round" -> IF r2 < d THEN f ELSE IF r2 > d THEN f + 1
                       ELSE IF "sql_round_half_away" \in dev THEN (IF n >= 0 THEN f + 1 ELSE f)
                       ELSE (IF f % 2 = 0 THEN f ELSE f + 1)
    [] op = "as_int64" -> IF n >= 0 THEN n \div d ELSE 0 - ((0 - n) \div d)
    [] op = "abs" -> <<"q", IF n < 0 THEN 0 - n ELSE n, d>>
    [] op = "neg" -> <<"q", 0 - n, d>>
    [] op = "sign" -> IF n < 0 THEN 0 - 1 ELSE IF n > 0 THEN 1 ELSE 0
QOps == {"floor", "ceil", "round", "as_int64", "abs", "neg", "sign"}
\* is_nan: the data model has one missing value, so is_nan = is_null (Pandas, SQL);
\* deviation polars_is_nan_null: Polars answers missing for a missing operand
\* deviation pg_is_nan_null_false: the PostgreSQL dialect writes CASE WHEN x IS NULL THEN FALSE ...
IsNan(x, dev) == IF IsNull(x) THEN (IF "polars_is_nan_null" \in dev THEN NULL ELSE IF "pg_is_nan_null_false" \in dev THEN 0 ELSE 1) ELSE 0

IfElse(c, a, b) == IF IsNull(c) THEN NULL ELSE IF c = 1 THEN a ELSE b
Where(c, a, b)  == IF c = 1 THEN a ELSE b          \* where(NULL, a, b) = b

(***************************************************************************)
(* Expression trees.  The tag fixes the types of the remaining components:  *)
(*   <<"c", col>>            column reference                               *)
(*   <<"k", int>>            numeric constant                               *)
(*   <<"u", op, e>>          unary (method or operator)                     *)
(*   <<"b", op, e1, e2>>     binary                                         *)
(*   <<"t", op, c, a, b>>    if_else / where                                *)
(*   <<"in", e, <<v..>>>>    is_in over constants                           *)
(***************************************************************************)
RECURSIVE EvalE(_, _, _)
EvalE(e, row, dev) ==
  CASE e[1] = "c" -> row[e[2]]
    [] e[1] = "k" -> e[2]
    [] e[1] = "ks" -> e[2]
    [] e[1] = "u" -> Unary(e[2], EvalE(e[3], row, dev))
    [] e[1] = "b" -> LET x == EvalE(e[3], row, dev)
                         y == EvalE(e[4], row, dev)
                     IN IF e[2] \in ArithOps THEN Arith(e[2], x, y, dev)
                        ELSE IF e[2] \in CmpOps THEN Cmp(e[2], x, y, dev)
                        ELSE IF e[2] \in LogicOps THEN Logic(e[2], x, y)
                        ELSE Pick(e[2], x, y, dev)
    [] e[1] = "t" -> LET c == EvalE(e[3], row, dev)
                         a == EvalE(e[4], row, dev)
                         b == EvalE(e[5], row, dev)
                     IN IF e[2] = "if_else" THEN IfElse(c, a, b) ELSE Where(c, a, b)
    \* text methods; text values are abstract codes, results of concat / trimstr are symbolic (realised by the harness)
    [] e[1] = "cat" -> LET x == EvalE(e[2], row, dev) y == EvalE(e[3], row, dev) IN
                       IF "pandas_concat_null_as_text" \in dev
                         THEN <<"cat", IF IsNull(x) THEN "nan" ELSE x, IF IsNull(y) THEN "nan" ELSE y>>
                         ELSE IF IsNull(x) \/ IsNull(y) THEN NULL ELSE <<"cat", x, y>>
    [] e[1] = "trim" -> LET x == EvalE(e[2], row, dev) IN IF IsNull(x) THEN NULL ELSE <<"trim", x, e[3], e[4]>>
    \* mapv({"s0": 1, "s1": 2}, 0): unmapped and missing values take the default
    [] e[1] = "mapv" -> LET x == EvalE(e[2], row, dev) IN IF IsNull(x) THEN 0 ELSE IF x = 0 THEN 1 ELSE IF x = 1 THEN 2 ELSE 0
    [] e[1] = "in" -> LET x == EvalE(e[2], row, dev)
                      IN IF IsNull(x) THEN (IF "null_cmp_false" \in dev THEN 0 ELSE NULL)
                         ELSE B(\E i \in 1..Len(e[3]) : e[3][i] = x)
    [] e[1] = "uq" -> QUnary(e[2], EvalE(e[3], row, dev), dev)
    \* around(x, -1): to the nearest ten, exact halves (5, 15, ...) to the even ten
    [] e[1] = "around" -> LET x == EvalE(e[2], row, dev) IN IF IsNull(x) THEN NULL ELSE 10 * QUnary("round", Quot(x, 10), dev)
    [] e[1] = "nan" -> IsNan(EvalE(e[2], row, dev), dev)

RECURSIVE DefinedE(_, _)
DefinedE(e, row) ==
  CASE e[1] \in {"c", "k", "ks"} -> TRUE
    [] e[1] = "u" -> /\ DefinedE(e[3], row)
                     /\ (IsInf(EvalE(e[3], row, {})) => e[2] \in {"is_null", "is_bad", "coalesce_0", "neg"})
                     /\ (e[2] \in UFNames => LET x == EvalE(e[3], row, {}) IN IsNull(x) \/ UFDom(e[2], x))
    [] e[1] = "b" -> /\ DefinedE(e[3], row) /\ DefinedE(e[4], row)
                     /\ LET x == EvalE(e[3], row, {}) y == EvalE(e[4], row, {}) IN
                        IF IsInf(x) \/ IsInf(y) THEN e[2] = "coalesce"
                        ELSE IF IsNull(x) \/ IsNull(y) THEN TRUE
                        ELSE CASE e[2] = "/" -> y # 0
                               [] e[2] \in {"//", "%"} -> x >= 0 /\ y > 0
                               \* the method spellings are floor-mod (numpy): the sign of the divisor; negative dividends are in
                               [] e[2] \in {"mod", "remainder"} -> y > 0
                               [] e[2] = "**" -> y >= 0 /\ y <= 3 /\ x >= 0 - 3 /\ x <= 3
                               [] OTHER -> TRUE
    [] e[1] = "t" -> /\ DefinedE(e[3], row) /\ DefinedE(e[4], row) /\ DefinedE(e[5], row)
                     /\ ~IsInf(EvalE(e[4], row, {})) /\ ~IsInf(EvalE(e[5], row, {}))
    [] e[1] = "in" -> DefinedE(e[2], row) /\ ~IsInf(EvalE(e[2], row, {}))
    [] e[1] \in {"cat", "trim", "mapv"} -> TRUE
    [] e[1] = "uq" -> DefinedE(e[3], row)
    [] e[1] = "around" -> DefinedE(e[2], row) /\ ~IsInf(EvalE(e[2], row, {}))
    [] e[1] = "nan" -> DefinedE(e[2], row)

RECURSIVE ColsOfE(_)
ColsOfE(e) ==
  CASE e[1] = "c" -> {e[2]}
    [] e[1] = "k" -> {}
    [] e[1] = "ks" -> {}
    [] e[1] = "u" -> ColsOfE(e[3])
    [] e[1] = "b" -> ColsOfE(e[3]) \cup ColsOfE(e[4])
    [] e[1] = "t" -> ColsOfE(e[3]) \cup ColsOfE(e[4]) \cup ColsOfE(e[5])
    [] e[1] = "in" -> ColsOfE(e[2])
    [] e[1] = "cat" -> ColsOfE(e[2]) \cup ColsOfE(e[3])
    [] e[1] \in {"trim", "mapv", "nan"} -> ColsOfE(e[2])
    [] e[1] = "uq" -> ColsOfE(e[3])
    [] e[1] = "around" -> ColsOfE(e[2])

\* does evaluating e on row compare a missing operand?  (applicability predicate of D14)
RECURSIVE NullCmpIn(_, _)
NullCmpIn(e, row) ==
  CASE e[1] = "c" -> FALSE
    [] e[1] = "k" -> FALSE
    [] e[1] = "ks" -> FALSE
    [] e[1] = "u" -> NullCmpIn(e[3], row)
    [] e[1] = "b" -> \/ NullCmpIn(e[3], row) \/ NullCmpIn(e[4], row)
                     \/ (e[2] \in CmpOps /\ (IsNull(EvalE(e[3], row, {})) \/ IsNull(EvalE(e[4], row, {}))))
    [] e[1] = "t" -> NullCmpIn(e[3], row) \/ NullCmpIn(e[4], row) \/ NullCmpIn(e[5], row)
    [] e[1] = "in" -> NullCmpIn(e[2], row) \/ IsNull(EvalE(e[2], row, {}))
    [] e[1] \in {"cat", "trim", "mapv"} -> FALSE
    [] e[1] = "uq" -> NullCmpIn(e[3], row)
    [] e[1] = "around" -> NullCmpIn(e[2], row)
    [] e[1] = "nan" -> NullCmpIn(e[2], row)

(***************************************************************************)
(* Laws of the reference (checked by TLC over a value universe V)           *)
(***************************************************************************)
ValueLaws(V) ==
  /\ \A x \in V : Pick("fmax", x, NULL, {}) = x /\ Pick("fmin", NULL, x, {}) = x
  /\ \A x \in V : Pick("maximum", x, NULL, {}) = NULL /\ Pick("minimum", NULL, x, {}) = NULL
  /\ \A a, b \in V : IfElse(NULL, a, b) = NULL /\ Where(NULL, a, b) = b
  /\ \A a, b \in {0, 1, NULL} : And3(a, b) = And3(b, a) /\ Or3(a, b) = Or3(b, a)
  /\ \A a, b \in {0, 1, NULL} : Not3(And3(a, b)) = Or3(Not3(a), Not3(b))
  /\ \A x, y \in V : Pick("coalesce", x, y, {}) = (IF x = NULL THEN y ELSE x)
  \* fractions: floor <= round <= ceil, ceil - floor <= 1, round is even at exact halves, truncation lies between
  /\ \A n \in V \ {NULL}, d \in {1, 2, 3, 4} :
       LET q == Quot(n, d) f == QUnary("floor", q, {}) c == QUnary("ceil", q, {}) r == QUnary("round", q, {})
           t == QUnary("as_int64", q, {}) a == QUnary("round", q, {"sql_round_half_away"}) IN
       /\ f <= r /\ r <= c /\ c - f <= 1 /\ f * d <= n /\ n <= c * d
       /\ (2 * n = (2 * f + 1) * d => r % 2 = 0)
       /\ t = (IF n >= 0 THEN f ELSE c)
       /\ (2 * n # (2 * f + 1) * d => a = r)
       /\ QUnary("neg", QUnary("neg", q, {}), {}) = q
=============================================================================
