------------------------------ MODULE MC_Exec ------------------------------
EXTENDS Exec
MC_TabCols == [t1 |-> <<"g", "o", "x">>, t2 |-> <<"g", "y">>]
MC_ColVals == [g |-> {NULL, 0, 1}, o |-> {0, 1, 2}, x |-> {NULL, 0, 1, 2}, y |-> {NULL, 1}]
MC_Kind == [g |-> "s", h |-> "s", h2 |-> "s", src |-> "s",
            p |-> "b", q |-> "b", o |-> "n", k |-> "n", x |-> "n", y |-> "n", z |-> "n", w |-> "n", v |-> "n", m |-> "q", t |-> "s", kk |-> "s", vv |-> "n", x2 |-> "n", nosuch |-> "n"]
MCB_TabCols == [t1 |-> <<"o", "x", "y">>]
MCB_ColVals == [o |-> {0, 1}, x |-> {NULL, 1}, y |-> {NULL, 2}]
MCD_ColVals == [o |-> {0, 1}, x |-> {1}, y |-> {NULL, 2}]
MCW_ColVals == [o |-> {0, 1, 2}, x |-> {1, 2}, y |-> {NULL, 2}]
MC5_TabCols == [t1 |-> <<"x", "y">>]
MC5_ColVals == [x |-> {NULL, 0 - 2, 0, 1, 3}, y |-> {NULL, 0 - 1, 0, 2}]
MC5I_ColVals == [x |-> {NULL, PINF, NINF, 1}, y |-> {NULL, 0, 2}]
MCB2_TabCols == [t1 |-> <<"o", "x", "y">>, t2 |-> <<"o", "x", "y">>]
MC5S_TabCols == [t1 |-> <<"g", "h">>]
MC5S_ColVals == [g |-> {NULL, 0, 1}, h |-> {NULL, 0, 1, 2}]
MC1_TabCols == [t1 |-> <<"g", "o", "x">>]
MCJ_TabCols == [t1 |-> <<"g", "x">>, t2 |-> <<"g", "x", "y">>]
MCJ_ColVals == [g |-> {NULL, 0, 1}, x |-> {NULL, 1}, y |-> {NULL, 1}]
SIM_TabCols == [t1 |-> <<"g", "o", "x", "y">>, t2 |-> <<"g", "k", "y">>]
SIM_ColVals == [g |-> {NULL, 0, 1}, o |-> {0, 1, 2, 3}, x |-> {NULL, 0, 1, 2}, y |-> {NULL, 0 - 1, 1, 3},
                k |-> {NULL, 0, 1, 2}]
NoBDev == {}
BDevMergeCommon == {"merge_common_branch"}
BDevSelectCollapse == {"select_collapse_unchecked"}
BDevJoinCheck == {"join_check_dropped_after_order"}
NoBackends == {}
NoDevOf == [b \in {} |-> {}]
AllBackends == {"pandas", "sqlite", "polars", "pg"}
AllDevOf == [b \in AllBackends |->
               CASE b = "pandas" -> {"pandas_drops_null_groups", "pandas_cum_null_hole", "null_cmp_false", "pandas_null_keys_match",
                                    "pandas_concat_null_as_text"}
                 [] b = "sqlite" -> {"sql_maxmin_swapped", "sqlite_full_join_emulation", "sql_round_half_away", "sqlite_mod_truncates"}
                 [] b = "pg" -> {"sql_maxmin_swapped", "sql_round_half_away", "pg_is_nan_null_false", "pg_mod_truncates"}
                 [] b = "polars" -> {"polars_full_join_right_key_lost", "polars_maxmin_ignore_null", "polars_nunique_counts_null",
                                    "polars_is_nan_null"}]
\* the value-level laws of the reference hold on a small universe (evaluated once, at the start of every run)
ASSUME ValueLaws({NULL, 0 - 3, 0 - 2, 0 - 1, 0, 1, 2, 3, 5})
=============================================================================
