---- MODULE MC_SqlMerge ----
EXTENDS SqlMerge
MC_Cols == {"a", "b", "c"}
MC_Cols2 == {"a", "b"}
NoDev == {}
DevWindow == {"window_deps_undeclared"}
====
